import ThunderProofs.Gql.ModeErase
import ThunderProofs.Gql.ExecUnit
import ThunderProofs.Gql.Sched
/-!
# C01 — Query results equal sequential reference semantics

Model: `ThunderModel/Gql/Exec.lean`.  `reference` is the naive sequential evaluator (one object at
a time, one field at a time, selections merged by `flatten`); `execute` is the batch executor
(`graphql/batch_executor.go`): columns of sources per selection, work units per execution mode
(inline / external / Expensive / batch / batch-with-fallback), `splitToNWorkUnits`, union
dispatch with `mergeBack`.  All theorems hold for every schema, query, data tree and fuel.
-/
namespace TM.Properties.C01
open TM TM.Gql

/-- **The executor computes the reference result**: whenever the sequential reference evaluation
of a query yields JSON `j`, the batch executor yields exactly `j` — for every schema (any mix of
execution modes and `NumParallelInvocations`), every query, every data tree. -/
theorem exec_eq_ref (σ : Schema) (fuel root : Nat) (rootVal : Val) (q : SelSet) (j : J)
    (h : reference σ fuel root rootVal q = .ok j) : execute σ fuel root rootVal q = .ok j := by
  unfold reference at h
  unfold execute
  cases ho : lookup root σ.objects with
  | none => simp [ho] at h
  | some od =>
    simp only [ho] at h ⊢
    have lvl := level_all σ fuel
    cases rootVal with
    | obj t fields =>
      simp only at h
      have href : ∀ it ∈ [(([] : List PE), Val.obj t fields)], it.2.isObj = true →
          ∃ j, refEval.refObject σ fuel it.1 root { od with key := none } it.2.fields (flatten (fun _ => true) fuel q) = .ok j := by
        intro it hit _
        simp only [List.mem_singleton] at hit
        subst hit
        exact ⟨j, h⟩
      rw [resolveObject_eq σ fuel lvl root _ _ _ href]
      simp [bind, Except.bind, Val.isObj, refObject_eq_row σ fuel root _ _ (([] : List PE), Val.obj t fields) j h]
    | _ =>
      simp only at h
      injection h with h
      subst h
      rw [resolveObject_eq σ fuel lvl root _ _ _ (by intro it hit ho'; simp only [List.mem_singleton] at hit; subst hit; simp [Val.isObj] at ho')]
      simp [bind, Except.bind, Val.isObj]

/-- **Execution modes and parallel splitting do not matter**: two schemas that differ only in how
fields are executed (plain, Expensive, batch, batch with fallback — either branch —, any
`NumParallelInvocations`) give the same result for every query that evaluates. -/
theorem mode_irrelevant (σ σ' : Schema) (hs : σ.sameShape σ') (fuel root : Nat) (rootVal : Val) (q : SelSet) (j : J)
    (h : reference σ fuel root rootVal q = .ok j) :
    execute σ fuel root rootVal q = .ok j ∧ execute σ' fuel root rootVal q = .ok j := by
  refine ⟨exec_eq_ref σ fuel root rootVal q j h, exec_eq_ref σ' fuel root rootVal q j ?_⟩
  rw [← reference_plain σ', ← hs, reference_plain σ]
  exact h

/-- the reference semantics itself is blind to execution modes -/
theorem reference_mode_blind (σ σ' : Schema) (hs : σ.sameShape σ') (fuel root : Nat) (rootVal : Val) (q : SelSet) :
    reference σ fuel root rootVal q = reference σ' fuel root rootVal q := by
  rw [← reference_plain σ, hs, reference_plain σ']

/-- **A work unit keeps source `i` paired with destination `i`**: whatever the field's mode and
number of parallel invocations, if the sub-executor `rb` answers every list of admissible items
pointwise by `g`, the unit over `items` returns `items.map g`, in order. -/
theorem unit_pointwise (rb : Ty → Option SelSet → List Item → Except Err (List J))
    (fd : FieldDef) (sub : Option SelSet) (ok : Item → Prop) (g : Item → J)
    (hrb : Pointwise rb fd.ty sub ok g) (items : List Item)
    (hok : ∀ it ∈ items, ok it) (hnf : ∀ it ∈ items, failOf it.2 = none) :
    execUnitWith rb fd sub items = .ok (items.map g) :=
  execUnit_pointwise rb fd sub ok g hrb items hok hnf

/-- **`splitToNWorkUnits` followed by writing each unit's results back by position pairs every
source with its own destination** -/
theorem split_gather {α : Type} (d0 : α) (g : α → J) (k : Nat) (hk : 0 < k) (xs : List α) (dflt : J) :
    gather k xs.length ((splitN d0 k xs).map (List.map g)) dflt = xs.map g :=
  gather_splitN d0 g k hk xs dflt

/-- every element handed to a split unit is an element of the original work unit -/
theorem split_mem {α : Type} (d0 : α) (k : Nat) (hk : 0 < k) (xs : List α) :
    ∀ part ∈ splitN d0 k xs, ∀ x ∈ part, x ∈ xs := splitN_mem d0 k hk xs

/-- **Scheduler independence** (abstract `WorkScheduler.Run`: a pool of runnable units, the
scheduler runs any of them, a unit writes its slots and enqueues its children): if the units
write pairwise distinct output slots, any two complete schedules leave the same value in every
slot. -/
theorem sched_confluent {K V : Type} [DecidableEq K] (pool : List (Sched.Unit' K V))
    (nd : ((Sched.allWritesL pool).map Prod.fst).Nodup)
    (s1 s2 : List Nat) (a1 a2 : List (K × V))
    (h1 : Sched.run pool [] s1 = some ([], a1)) (h2 : Sched.run pool [] s2 = some ([], a2)) (k : K) :
    Sched.lookupLast a1 k = Sched.lookupLast a2 k :=
  Sched.sched_confluent pool nd s1 s2 a1 a2 h1 h2 k

/-- every complete schedule performs exactly the writes owed by the initial pool -/
theorem sched_same_writes {K V : Type} (pool : List (Sched.Unit' K V)) (sched : List Nat) (acc' : List (K × V))
    (h : Sched.run pool [] sched = some ([], acc')) : acc'.Perm (Sched.allWritesL pool) :=
  Sched.complete_writes_perm pool sched acc' h

/-! ### non-vacuity: a concrete query with a union, a list, an alias merge and three modes -/

def exσ : Schema :=
  { objects := [(1, { fields := [⟨10, .list (.object 2), .batch, some 2, 10⟩, ⟨11, .scalar, .expensive, none, 11⟩,
                                 ⟨12, .union 5, .fallback true, none, 12⟩] }),
                (2, { fields := [⟨20, .scalar, .inline, none, 20⟩], key := some 20 })],
    unions := [(5, [2])] }
def exVal : Val := .obj 1 [(10, .list [.obj 2 [(20, .sc 7)], .null, .obj 2 [(20, .sc 9)]]), (11, .sc 3), (12, .obj 2 [(20, .sc 4)])]
def exQ : SelSet := .mk [.mk 100 10 {} (some (.mk [.mk 101 20 {} none] [])), .mk 102 11 {} none,
    .mk 100 10 {} (some (.mk [.mk 103 0 {} none] [])),
    .mk 104 12 {} (some (.mk [.mk 105 0 {} none] [.mk 2 {} (.mk [.mk 106 20 {} none] [])]))] []

def exJ : J := .obj
  [(100, .arr [.obj [(101, .sc 7), (103, .sc 2), (0, .sc 7)], .null, .obj [(101, .sc 9), (103, .sc 2), (0, .sc 9)]]),
   (102, .sc 3),
   (104, .obj [(105, .sc 2), (106, .sc 4), (0, .sc 4)])]

/-- the hypothesis of `exec_eq_ref` is met by a query with an alias merge, a batch field split in
two, a nil list element, a key field, an Expensive field and a union behind a fallback field -/
theorem ex_reference : reference exσ 8 1 exVal exQ = .ok exJ := by
  simp [reference, exσ, exVal, exQ, exJ, lookup, refEval, refEval.refObject, refEval.refSel, refEval.refKey, flatten, visit,
    groupByAlias, mergeGroup, findField, Dirs.included, Sel.alias, Sel.name, Sel.dirs, Sel.sub, SelSet.sels, SelSet.frags,
    Frag.on, Frag.dirs, Frag.set, leaf, Val.isObj, Val.fields, bind, Except.bind, pure, Except.pure, List.zipIdx]

theorem ex_execute : execute exσ 8 1 exVal exQ = .ok exJ := exec_eq_ref _ _ _ _ _ _ ex_reference

end TM.Properties.C01
