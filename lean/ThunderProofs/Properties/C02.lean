import ThunderModel.Subscription
import ThunderProofs.Properties.C03
import ThunderProofs.Properties.C04
import ThunderProofs.Properties.C08
import ThunderProofs.Properties.C17
/-!
# C02 — Live subscriptions converge: client state equals the current query result

Model: `ThunderModel/Subscription.lean` on top of the delta format of C03 (`diffA`, `applyA`).
The lifecycle side (no update after unsubscribe, ids never mixed up) is C17's model, the
"server recomputes when the data changed" side is C04/C08.
-/
namespace TM.Properties.C02
open TM TM.J TM.Sub

/-- one step keeps the client at the key-stripped value the server remembers -/
theorem step_converges (f : Nat) (prev r : J) (ini : Bool) (hf : depth prev < f) (wp : WFJ prev) (wr : WFJ r)
    (hini : ini = true → prev = .null) :
    applyA f (strip prev) (message f prev ini r) = .ok (strip r) := by
  have rt := C03.merge_diff f prev r hf wp wr
  unfold message
  cases hd : diffA reorder f prev r with
  | some d => simpa [hd] using rt
  | none =>
    rw [hd] at rt
    have hs : strip prev = strip r := by
      simp only [applyA, applyG] at rt
      injection rt
    cases ini with
    | false => simp [applyA, applyG, hs]
    | true =>
      have hp := hini rfl
      subst hp
      have hs' : strip r = .null := by rw [← hs]; simp [strip]
      cases f with
      | zero => omega
      | succ f => simp [applyA, applyG, mergeG, strip, hs']

/-- **Convergence**: a client that starts from nothing and applies every update in order holds,
after any number of recomputations, exactly the last result with the key fields removed. -/
theorem session_converges (f : Nat) : ∀ (rs : List J) (prev : J) (ini : Bool), depth prev < f → WFJ prev →
    (ini = true → prev = .null) → (∀ r ∈ rs, WFJ r ∧ depth r < f) →
    session f prev (strip prev) ini rs = .ok (lastOr prev rs, strip (lastOr prev rs)) := by
  intro rs
  induction rs with
  | nil => intro prev ini _ _ _ _; rfl
  | cons r rs ih =>
    intro prev ini hf wp hini hall
    have hr := hall r (by simp)
    simp only [session, lastOr]
    rw [step_converges f prev r ini hf wp hr.1 hini]
    simp only [bind, Except.bind]
    exact ih r false hr.2 hr.1 (by intro h; cases h) (fun x hx => hall x (by simp [hx]))

/-- from the very beginning: server `previous = nil`, client state nothing -/
theorem fold_merge_converges (f : Nat) (rs : List J) (hf : 0 < f) (hall : ∀ r ∈ rs, WFJ r ∧ depth r < f) :
    session f .null .null true rs = .ok (lastOr .null rs, strip (lastOr .null rs)) := by
  have := session_converges f rs .null true (by simpa [depth] using hf) (by simp [WFJ]) (fun _ => rfl) hall
  simpa [strip] using this

/-- **the first message of a subscription is a full update**: there always is one, and applied to
nothing it yields the whole (key-stripped) result -/
theorem first_is_full (f : Nat) (r : J) (hf : 0 < f) (wr : WFJ r) :
    ∃ d, message f .null true r = some d ∧ applyA f .null (some d) = .ok (strip r) := by
  have h := step_converges f .null r true (by simpa [depth] using hf) (by simp [WFJ]) wr (fun _ => rfl)
  simp only [strip] at h
  unfold message at h ⊢
  cases hd : diffA reorder f .null r with
  | some d => exact ⟨d, rfl, by simpa [hd] using h⟩
  | none => exact ⟨.obj [], by simp, by simpa [hd] using h⟩

/-- **updates of different subscriptions never mix**: what a client holds for id `i` after any
interleaved stream of envelopes is what it holds after the envelopes tagged `i` alone -/
theorem streams_independent (f : Nat) : ∀ (envs : List (Nat × Option J)) (st st' : Nat → J) (i : Nat),
    clientAll f st envs = .ok st' →
    ∃ st'', clientAll f st (envs.filter fun e => e.1 = i) = .ok st'' ∧ st'' i = st' i := by
  intro envs
  induction envs with
  | nil => intro st st' i h; simp [clientAll] at h; subst h; exact ⟨st, rfl, rfl⟩
  | cons e envs ih =>
    intro st st' i h
    obtain ⟨k, m⟩ := e
    simp only [clientAll] at h
    cases hv : applyA f (st k) m with
    | error err => simp [hv, bind, Except.bind] at h
    | ok v =>
      simp only [hv, bind, Except.bind] at h
      by_cases hk : k = i
      · subst hk
        simp only [List.filter_cons, decide_true, if_true, clientAll, hv, bind, Except.bind]
        exact ih _ st' k h
      · have hk' : ¬ (k = i) := hk
        simp only [List.filter_cons, hk', decide_false]
        -- the envelope of another id does not touch id i
        obtain ⟨s2, h2, h3⟩ := ih (fun j => if j = k then v else st j) st' i h
        -- run the filtered stream from st instead: same result at i, by congruence on the i-th component
        have gen : ∀ (l : List (Nat × Option J)) (a b : Nat → J) (ra : Nat → J), (∀ e ∈ l, e.1 = i) → a i = b i →
            clientAll f a l = .ok ra → ∃ rb, clientAll f b l = .ok rb ∧ rb i = ra i := by
          intro l
          induction l with
          | nil => intro a b ra _ hab hr; simp [clientAll] at hr; subst hr; exact ⟨b, rfl, hab.symm⟩
          | cons e l ihl =>
            intro a b ra hl hab hr
            obtain ⟨k2, m2⟩ := e
            have hk2 : k2 = i := hl (k2, m2) (by simp)
            subst hk2
            simp only [clientAll] at hr ⊢
            rw [← hab]
            cases hv2 : applyA f (a k2) m2 with
            | error err => simp [hv2, bind, Except.bind] at hr
            | ok v2 =>
              simp only [hv2, bind, Except.bind] at hr ⊢
              exact ihl _ _ ra (fun e he => hl e (by simp [he])) (by simp) hr
        have hfil : ∀ e ∈ envs.filter (fun e => decide (e.1 = i)), e.1 = i := by
          intro e he; simpa using (List.mem_filter.mp he).2
        obtain ⟨rb, hrb, hrbi⟩ := gen _ _ st s2 hfil (by simp [hk, Ne.symm hk]) h2
        exact ⟨rb, hrb, by rw [hrbi, h3]⟩

/-- **no update for an id after the server processed its unsubscribe** (C17): a stopped rerunner
neither runs nor writes again -/
theorem no_update_after_unsubscribe (cfg : Conn.Cfg) (s : Conn.St) (rid : Nat) (h : rid ∈ s.stopped) :
    Conn.step cfg s (.runOk rid) = none ∧ Conn.step cfg s (.runFail rid) = none :=
  C17.quiet_after_end cfg s rid h

/-! ### non-vacuity -/
def exRs : List J := [.obj [(1, .sc 1)], .obj [(1, .sc 2), (2, .arr [.sc 5])], .obj [(1, .sc 2)]]

theorem ex_session : session 5 .null .null true exRs = .ok (.obj [(1, .sc 2)], .obj [(1, .sc 2)]) := by
  have := fold_merge_converges 5 exRs (by omega) (by
    intro r hr
    simp only [exRs, List.mem_cons, List.mem_nil_iff, or_false] at hr
    rcases hr with rfl | rfl | rfl <;>
      simp [WFJ, WFL, WFO, sortedK, keyOK, keyOf, depth, depthL, depthO])
  simpa [exRs, lastOr, strip, stripO, stripL] using this

end TM.Properties.C02
