import ThunderModel.Sql.Limit
/-!
# C12 — A shard-limited DB handle can never read or write outside its shard

Model: `ThunderModel/Sql/Limit.lean` (`sqlgen/db.go`: `checkFilterAgainstLimits`,
`checkColumnValuesAgainstLimits`, and the order check → build → issue of every operation).
-/
namespace TM.Properties.C12
open TM.Sql.Limit

theorem checkLimit_append (kvs a b : KVs) : checkLimit kvs (a ++ b) = (checkLimit kvs a && checkLimit kvs b) := by
  simp [checkLimit, List.all_append]

/-- what `checkLimit` establishes: every limit column is present with exactly the limit's value
(Go `==` on `interface{}`: same dynamic type and value) -/
theorem checkLimit_spec (kvs limit : KVs) (h : checkLimit kvs limit = true) :
    ∀ k v, (k, v) ∈ limit → get kvs k = some v := by
  intro k v hm
  simp only [checkLimit, List.all_eq_true] at h
  have := h (k, v) hm
  simpa using this

/-- a passed check means the values comply with every enforced limit -/
theorem check_enforced (h : Handle) (kvs : KVs) (hc : check h kvs = true) : checkLimit kvs (enforced h) = true := by
  unfold check at hc
  unfold enforced
  rw [checkLimit_append]
  simp only [Bool.and_eq_true] at hc ⊢
  obtain ⟨h1, h2⟩ := hc
  constructor
  · cases hs : h.shard with
    | none => simp [checkLimit]
    | some l => simpa [hs] using h1
  · cases hd : h.dyn with
    | none => simp [checkLimit]
    | some d =>
      simp only [hd] at h2 ⊢
      cases hce : d.continueOnError with
      | true => simp [checkLimit]
      | false =>
        cases hf : d.filter with
        | none => simp [checkLimit]
        | some l => simpa [hf, hce] using h2

/-- **Every statement that reaches the database is confined to the shard**: whatever the
operation and its arguments, complying or not, each statement issued through a limited handle
carries every enforced limit column with the limit's value — SELECT/COUNT in their WHERE, every
row of an INSERT/UPSERT, UPDATE in SET ∪ WHERE, DELETE in its WHERE. -/
theorem ok_implies_carries (h : Handle) (op : Op) : ∀ s ∈ (exec h op).1, carries (enforced h) s = true := by
  intro s hs
  cases op with
  | query f =>
    simp only [exec] at hs
    by_cases hc : check h f = true
    · simp only [hc, if_true, List.mem_singleton] at hs; subst hs; exact check_enforced h f hc
    · simp [hc] at hs
  | insertRow r u =>
    simp only [exec] at hs
    by_cases hc : check h r = true
    · simp only [hc, if_true, List.mem_singleton] at hs; subst hs
      simp [carries, check_enforced h r hc]
    · simp [hc] at hs
  | insertRows rows n u =>
    simp only [exec] at hs
    by_cases hc : (chunks n rows.length rows).all (fun c => c.all (check h)) = true
    · simp only [hc, if_true, List.mem_map] at hs
      obtain ⟨c, hcm, rfl⟩ := hs
      simp only [carries, List.all_eq_true]
      intro r hr
      exact check_enforced h r (List.all_eq_true.mp (List.all_eq_true.mp hc c hcm) r hr)
    · simp [hc] at hs
  | updateRow pk rest =>
    simp only [exec] at hs
    by_cases hc : check h (pk ++ rest) = true
    · simp only [hc, if_true, List.mem_singleton] at hs; subst hs; exact check_enforced h _ hc
    · simp [hc] at hs
  | deleteRow pk =>
    simp only [exec] at hs
    by_cases hc : check h pk = true
    · simp only [hc, if_true, List.mem_singleton] at hs; subst hs; exact check_enforced h pk hc
    · simp [hc] at hs

/-- **a call that does not comply returns an error without touching the database** (every
operation, the chunked writes included) -/
theorem error_touches_nothing (h : Handle) (op : Op)
    (he : (exec h op).2 = true) : (exec h op).1 = [] := by
  cases op with
  | query f => simp only [exec] at he ⊢; by_cases hc : check h f = true <;> simp_all
  | insertRow r u => simp only [exec] at he ⊢; by_cases hc : check h r = true <;> simp_all
  | insertRows rows n u =>
    simp only [exec] at he ⊢
    by_cases hc : (chunks n rows.length rows).all (fun c => c.all (check h)) = true
    · simp only [hc, if_true] at he; cases he
    · simp only [hc]; rfl
  | updateRow pk rest => simp only [exec] at he ⊢; by_cases hc : check h (pk ++ rest) = true <;> simp_all
  | deleteRow pk => simp only [exec] at he ⊢; by_cases hc : check h pk = true <;> simp_all

/-- **batched fetches keep the restriction for every combined filter**: each OR-branch of the
batched SELECT is confined to the shard of the handle whose query it serves -/
theorem batch_keeps_limit (qs : List (Handle × KVs)) (bs : List KVs) (hb : execBatch qs = some (.selectBatch bs)) :
    bs = qs.map (·.2) ∧ ∀ q ∈ qs, checkLimit q.2 (enforced q.1) = true := by
  unfold execBatch at hb
  by_cases hc : qs.all (fun q => check q.1 q.2) = true
  · simp only [hc, if_true, Option.some.injEq, Stmt.selectBatch.injEq] at hb
    refine ⟨hb.symm, ?_⟩
    intro q hq
    exact check_enforced q.1 q.2 (List.all_eq_true.mp hc q hq)
  · simp [hc] at hb

/-- a query that does not comply with its handle never joins a batch -/
theorem batch_rejects (qs : List (Handle × KVs)) (q : Handle × KVs) (hq : q ∈ qs) (hc : check q.1 q.2 = false) :
    execBatch qs = none := by
  unfold execBatch
  have : qs.all (fun q => check q.1 q.2) = false := by
    rw [List.all_eq_false]
    exact ⟨q, hq, by simp [hc]⟩
  simp [this]

/-- the chunks of a chunked write are exactly its rows, in order: checking every chunk checks
every row, and the statements issued carry every row once -/
theorem chunks_flatten {α : Type} (n : Nat) : ∀ (f : Nat) (l : List α), l.length ≤ f → (chunks n f l).flatten = l := by
  intro f
  induction f with
  | zero => intro l hl; cases l with
    | nil => simp [chunks]
    | cons a t => simp at hl
  | succ f ih =>
    intro l hl
    cases l with
    | nil => simp [chunks]
    | cons a t =>
      simp only [chunks, List.flatten_cons]
      rw [ih]
      · exact List.take_append_drop _ _
      · simp only [List.length_drop, List.length_cons] at hl ⊢; omega

/-- a chunked write with one row that does not comply, in whichever chunk, is refused as a whole -/
theorem insertRows_all_or_nothing (h : Handle) (rows : List KVs) (n : Nat) (u : Bool) (r : KVs) (hr : r ∈ rows)
    (hc : check h r = false) : exec h (.insertRows rows n u) = ([], true) := by
  have hmem : r ∈ (chunks n rows.length rows).flatten := by rw [chunks_flatten n _ rows (Nat.le_refl _)]; exact hr
  obtain ⟨c, hcm, hrc⟩ := List.mem_flatten.mp hmem
  have : (chunks n rows.length rows).all (fun c => c.all (check h)) = false := by
    rw [List.all_eq_false]
    exact ⟨c, hcm, by simp only [List.all_eq_true]; intro hall; simp [hall r hrc] at hc⟩
  simp [exec, this]

/-! ### non-vacuity and an observation beyond the property's wording -/
def shard1 : Handle := { shard := some [(1, some ⟨0, 7⟩)] }

/-- the second chunk does not comply: nothing is issued, the first chunk included -/
example : exec shard1 (.insertRows [[(1, some ⟨0, 7⟩)], [(1, some ⟨0, 8⟩)]] 1 false) = ([], true) := by decide
example : (exec shard1 (.insertRows [[(1, some ⟨0, 7⟩)], [(1, some ⟨0, 7⟩)], [(1, some ⟨0, 7⟩)]] 2 false)).1.length = 2 := by decide

example : (exec shard1 (.query [(1, some ⟨0, 7⟩), (2, some ⟨0, 3⟩)])).1 = [.select [(1, some ⟨0, 7⟩), (2, some ⟨0, 3⟩)]] := by decide
example : exec shard1 (.query [(2, some ⟨0, 3⟩)]) = ([], true) := by decide
/-- same number, other Go type (`int` vs `int64`): rejected -/
example : exec shard1 (.query [(1, some ⟨1, 7⟩)]) = ([], true) := by decide

/-- Observation: `UpdateRow` is accepted when the limit column is among the SET columns; its WHERE
(the primary key) alone does not pin the shard. The property as worded ("carries those column
values") holds; the UPDATE could still move a row of another shard with the same primary key. -/
theorem update_where_not_confined :
    ∃ pk rest, (exec shard1 (.updateRow pk rest)).2 = false ∧ checkLimit pk (enforced shard1) = false :=
  ⟨[(0, some ⟨0, 1⟩)], [(1, some ⟨0, 7⟩)], by decide, by decide⟩

end TM.Properties.C12
