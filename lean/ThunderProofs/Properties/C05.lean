import ThunderProofs.Batch.Step
/-!
# C05 — Batching

Model: `ThunderModel/Batch.lean` (`batch/batch.go`).  All theorems quantify over every schedule
(label list) of joins, timer/size/cancel wake-ups, `Many` outcomes and returns, any `MaxSize`,
any shard function (keys), any number of callers.
-/
namespace TM.Properties.C05
open TM.Batch

/-- **Each caller gets its own result**: a call that returns a value returns the element of its
group's result at the index where its own argument sits in the arguments given to `Many`. -/
theorem own_result (m : Nat) (ls : List Label) (s : St) (h : run (init m) ls = some s)
    (i : Nat) (c : Call) (v : Nat) (hc : s.calls[i]? = some c) (hp : c.pc = .returned (some v)) :
    ∃ (g : Group) (rs : List Nat), s.groups[c.group]? = some g ∧ g.done = some (some rs) ∧
      rs[c.index]? = some v ∧ g.args[c.index]? = some c.arg := by
  have inv := inv_run m ls s h
  obtain ⟨g, res, hg, hd, hr⟩ := inv.returned i c _ hc hp
  obtain ⟨g2, hg2, ha, _⟩ := inv.callSlot i c hc
  rw [hg] at hg2; injection hg2 with hg2; subst hg2
  cases res with
  | none => simp [resultAt] at hr
  | some rs => exact ⟨g, rs, hg, hd, by simpa [resultAt] using hr.symm, ha⟩

/-- in particular, if `Many` computes `f` pointwise, every caller gets `f` of its own argument -/
theorem own_result_pointwise (f : Nat → Nat) (m : Nat) (ls : List Label) (s : St) (h : run (init m) ls = some s)
    (i : Nat) (c : Call) (v : Nat) (hc : s.calls[i]? = some c) (hp : c.pc = .returned (some v))
    (hf : ∀ g rs, s.groups[c.group]? = some g → g.done = some (some rs) → rs = g.args.map f) :
    v = f c.arg := by
  obtain ⟨g, rs, hg, hd, hv, ha⟩ := own_result m ls s h i c v hc hp
  have := hf g rs hg hd
  subst this
  simp only [List.getElem?_map, ha, Option.map_some] at hv
  injection hv with hv; exact hv.symm

/-- a call that returns an error does so because its whole batch failed (error, panic, wrong
number of results, or cancelled context) -/
theorem error_is_batch_error (m : Nat) (ls : List Label) (s : St) (h : run (init m) ls = some s)
    (i : Nat) (c : Call) (hc : s.calls[i]? = some c) (hp : c.pc = .returned none) :
    ∃ g : Group, s.groups[c.group]? = some g ∧ g.done = some none := by
  have inv := inv_run m ls s h
  obtain ⟨g, res, hg, hd, hr⟩ := inv.returned i c _ hc hp
  obtain ⟨g2, hg2, ha, _⟩ := inv.callSlot i c hc
  rw [hg] at hg2; injection hg2 with hg2; subst hg2
  cases res with
  | none => exact ⟨g, hg, hd⟩
  | some rs =>
    obtain ⟨_, _, hsh⟩ := inv.doneShape c.group g hg
    have hl := (hsh rs hd).1
    have : c.index < rs.length := by rw [hl]; exact lt_of_getElem? ha
    simp [resultAt, List.getElem?_eq_getElem this] at hr

/-- **Each argument is handed to the batch function at most once**: a call occupies exactly one
slot of one group, no two calls share a slot, every slot belongs to a call, and `Many` runs at
most once per group — exactly once for a group that has results. -/
theorem at_most_once (m : Nat) (ls : List Label) (s : St) (h : run (init m) ls = some s) :
    (∀ (i j : Nat) (ci cj : Call), s.calls[i]? = some ci → s.calls[j]? = some cj →
        ci.group = cj.group → ci.index = cj.index → i = j) ∧
    (∀ (gi : Nat) (g : Group) (k : Nat), s.groups[gi]? = some g → k < g.args.length →
        ∃ (i : Nat) (c : Call), s.calls[i]? = some c ∧ c.group = gi ∧ c.index = k) ∧
    (∀ (gi : Nat) (g : Group), s.groups[gi]? = some g →
        g.manyCalls ≤ 1 ∧ (∀ rs, g.done = some (some rs) → g.manyCalls = 1)) := by
  have inv := inv_run m ls s h
  exact ⟨inv.slotsDistinct, inv.slotsCovered, fun gi g hg =>
    ⟨(inv.doneShape gi g hg).1, fun rs hrs => ((inv.doneShape gi g hg).2.2 rs hrs).2⟩⟩

/-- **A batch never exceeds `MaxSize`.** -/
theorem size_bound (m : Nat) (ls : List Label) (s : St) (h : run (init m) ls = some s)
    (gi : Nat) (g : Group) (hg : s.groups[gi]? = some g) (hm : 0 < m) : g.args.length ≤ m := by
  have inv := inv_run m ls s h
  have hms : s.maxSize = m := by
    have : ∀ (s0 : St) (ls : List Label) (s : St), run s0 ls = some s → s.maxSize = s0.maxSize := by
      intro s0 ls
      induction ls generalizing s0 with
      | nil => intro s h; simp [run] at h; subst h; rfl
      | cons l ls ih =>
        intro s h
        simp only [run] at h
        cases hs : step? s0 l with
        | none => simp [hs] at h
        | some s1 =>
          simp [hs] at h
          have e1 := ih s1 s h
          have e2 : s1.maxSize = s0.maxSize := by
            cases l <;> simp only [step?] at hs <;> (repeat' split at hs) <;>
              first | (injection hs with hs; subst hs; rfl) | cases hs
          rw [e1, e2]
    exact this (init m) ls s h
  have := (inv.sizeBound gi g hg).1
  rw [hms] at this
  exact this hm

/-- **A batch never mixes shards**: every call in a group carries the group's key. -/
theorem shard_pure (m : Nat) (ls : List Label) (s : St) (h : run (init m) ls = some s)
    (i j : Nat) (ci cj : Call) (hi : s.calls[i]? = some ci) (hj : s.calls[j]? = some cj)
    (hg : ci.group = cj.group) : ci.key = cj.key := by
  have inv := inv_run m ls s h
  obtain ⟨g1, h1, _, k1⟩ := inv.callSlot i ci hi
  obtain ⟨g2, h2, _, k2⟩ := inv.callSlot j cj hj
  rw [hg, h2] at h1; injection h1 with h1; subst h1
  rw [← k1, ← k2]

/-- **Every call returns**: as long as some call has not returned, some step of the protocol is
enabled — whatever `Many` does and whenever timers fire or the context is cancelled, no call
waits for something that cannot happen (the rest is the scheduler's fairness). -/
theorem all_return (m : Nat) (ls : List Label) (s : St) (h : run (init m) ls = some s)
    (i : Nat) (c : Call) (hc : s.calls[i]? = some c) (hnr : ∀ r, c.pc ≠ .returned r) :
    ∃ (l : Label), (match l with | .join _ _ => False | .cancel => False | _ => True) ∧ (step? s l).isSome := by
  have inv := inv_run m ls s h
  -- a creator that has not finished always has an enabled step
  have creatorStep : ∀ (j : Nat) (d : Call), s.calls[j]? = some d → d.creator = true → (∀ r, d.pc ≠ .returned r) →
      ∃ (l : Label), (match l with | .join _ _ => False | .cancel => False | _ => True) ∧ (step? s l).isSome := by
    intro j d hd hcr hn
    obtain ⟨g, hg, _, _⟩ := inv.callSlot j d hd
    cases hpc : d.pc with
    | joined => exact ⟨.wake j, trivial, by simp [step?, hd, hpc]⟩
    | woke => exact ⟨.unpublish j, trivial, by simp [step?, hd, hpc, hg]⟩
    | unpublished => exact ⟨.run j .err, trivial, by simp [step?, hd, hpc, hg]⟩
    | waiting => exact absurd hpc (inv.creatorPc j d hd hcr)
    | ran =>
      have := inv.creatorEarly j d g hd hcr hg
      rw [hpc] at this
      cases hdn : g.done with
      | none => simp [PC.early, hdn] at this
      | some res => exact ⟨.ret j, trivial, by simp [step?, hd, hpc, hg, hdn]⟩
    | returned r => exact absurd hpc (hn r)
  cases hcr : c.creator with
  | true => exact creatorStep i c hc hcr hnr
  | false =>
    obtain ⟨g, hg, _, _⟩ := inv.callSlot i c hc
    rcases inv.joinerPc i c hc hcr with hw | ⟨r, hr⟩
    · cases hdn : g.done with
      | some res => exact ⟨.ret i, trivial, by simp [step?, hc, hw, hg, hdn]⟩
      | none =>
        obtain ⟨j, d, hd, hdc, hdg⟩ := inv.openHasCreator c.group g hg hdn
        refine creatorStep j d hd hdc ?_
        intro r hr
        have := inv.creatorEarly j d g hd hdc (by rw [hdg]; exact hg)
        rw [hr] at this
        simp [PC.early, hdn] at this
    · exact absurd hr (hnr r)

/-- Non-vacuity: three callers, `MaxSize = 2`, two shards; the late joiner arrives after the
creator's timer fired and is still served by the same `Many` call. -/
example :
    (run (init 2) [.join 10 0, .wake 0, .join 11 0, .join 12 1, .unpublish 0, .run 0 (.ok [110, 111]),
        .ret 1, .ret 0]).map (fun s => (s.calls.map (·.pc), s.groups.map (·.args))) =
      some ([.returned (some 110), .returned (some 111), .joined], [[10, 11], [12]]) := by decide

end TM.Properties.C05
