import ThunderProofs.Fed.Bounds
import ThunderProofs.Fed.MergeDeep
/-!
# C09 — Merged gateway schema

Model: `ThunderModel/Fed/SchemaMerge.lean` (`federation/merge_schemas.go`).  `mode = false` is
`Intersection` (versions of one service), `mode = true` is `Union` (independent services).
Schemas are name-sorted lists (`Sorted`), as the Go code emits them.
-/
namespace TM.Properties.C09
open TM.SM

/-- The outcome of merging two schemas does not depend on their order (either mode): neither the
merged schema nor whether the merge is rejected. -/
theorem merge_comm (mode : Bool) (a b : Schema) : mergeSchemas mode a b = mergeSchemas mode b a :=
  mergeSchemas_comm mode a b

/-- hence the fold over two services / versions is order independent -/
theorem fold2_order_independent (mode : Bool) (a b : Schema) :
    mergeSlice mode [a, b] = mergeSlice mode [b, a] := by
  simp [mergeSlice, List.foldlM, merge_comm mode a b]

/-- merging a schema with itself is the identity (two replicas of one version) -/
theorem merge_idem (mode : Bool) (a : Schema) : mergeSchemas mode a a = some a :=
  mergeSchemas_self mode a

/-- two type references are compatible iff they are the same up to non-null modifiers -/
theorem compatible_iff_same_shape (isInput : Bool) (a b : Ty) :
    (mergeRef isInput a b).isSome ↔ erase a = erase b :=
  mergeRef_isSome_iff isInput a b

/-- **An argument is required if any side requires it.** -/
theorem required_if_any (a b m : Ty) (wa : WFTy a) (wb : WFTy b) (h : mergeRef true a b = some m) :
    m.isNonNull = (a.isNonNull || b.isNonNull) := by
  simpa using (mergeRef_spec true a b m wa wb h).2.2

/-- **An output is non-null only if every side guarantees it.** -/
theorem nonnull_only_if_all (a b m : Ty) (wa : WFTy a) (wb : WFTy b) (h : mergeRef false a b = some m) :
    m.isNonNull = (a.isNonNull && b.isNonNull) := by
  simpa using (mergeRef_spec false a b m wa wb h).2.2

/-- **... at every list depth**: `[[T!]]!` against `[[T]!]` is `[[T]]`. An argument (or input field) is required
at a list depth if any side requires it there; an output is non-null at a list depth only if every side
guarantees it there. -/
theorem required_if_any_at_depth (d : Nat) (a b m : Ty) (wa : WFTy a) (wb : WFTy b) (h : mergeRef true a b = some m) :
    nnAt m d = (nnAt a d || nnAt b d) := by
  simpa using mergeRef_nnAt true d a b m wa wb h

theorem nonnull_only_if_all_at_depth (d : Nat) (a b m : Ty) (wa : WFTy a) (wb : WFTy b) (h : mergeRef false a b = some m) :
    nnAt m d = (nnAt a d && nnAt b d) := by
  simpa using mergeRef_nnAt false d a b m wa wb h

/-- the hypotheses are satisfiable with content: `[T!]` against `[T]!` as outputs gives `[T]` -/
example : mergeRef false (.list (.nonNull (.named 0 0))) (.nonNull (.list (.named 0 0))) = some (.list (.named 0 0)) ∧
    nnAt (.list (.nonNull (.named 0 0))) 1 = true ∧ nnAt (.nonNull (.list (.named 0 0))) 1 = false := by
  refine ⟨?_, ?_, ?_⟩ <;> simp [mergeRef, wrapIf, nnAt, under, Ty.isNonNull]

/-- the merged reference has the common shape -/
theorem merged_shape (i : Bool) (a b m : Ty) (wa : WFTy a) (wb : WFTy b) (h : mergeRef i a b = some m) :
    erase m = erase a ∧ erase m = erase b := by
  have h1 := (mergeRef_spec i a b m wa wb h).1
  have h2 := (mergeRef_spec i b a m wb wa (by rw [mergeRef_comm]; exact h)).1
  exact ⟨h1, h2⟩

/-- **Intersection contains only what both versions support** (types): every type of the merged
schema is a type of both, merged from the two definitions. -/
theorem inter_only_common (a b m : Schema) (sa : Sorted a) (sb : Sorted b)
    (h : mergeSchemas false a b = some m) (t : Nat) (d : TypeDef) (hd : lookup t m = some d) :
    ∃ da db, lookup t a = some da ∧ lookup t b = some db ∧ mergeType false da db = some d := by
  have := mergeNamed_lookup _ _ a b m sa sb h t
  rw [hd] at this
  cases ha : lookup t a <;> cases hb : lookup t b <;> simp [ha, hb, slot] at this
  exact ⟨_, _, rfl, rfl, this.symm⟩

/-- … fields of an object … -/
theorem inter_fields_common (fa fb fm : List (Nat × Field)) (sa : Sorted fa) (sb : Sorted fb)
    (h : mergeFields false fa fb = some fm) (f : Nat) (x : Field) (hx : lookup f fm = some x) :
    ∃ xa xb, lookup f fa = some xa ∧ lookup f fb = some xb ∧ mergeField false xa xb = some x := by
  have := mergeNamed_lookup _ _ fa fb fm sa sb h f
  rw [hx] at this
  cases ha : lookup f fa <;> cases hb : lookup f fb <;> simp [ha, hb, slot] at this
  exact ⟨_, _, rfl, rfl, this.symm⟩

/-- … arguments of a field / fields of an input object: a merged argument is an argument of both
sides; an argument only one side knows is dropped from an intersection, and it must be optional,
otherwise the merge is rejected. -/
theorem inter_args_common (aa ab am : List (Nat × Ty)) (sa : Sorted aa) (sb : Sorted ab)
    (h : mergeInputs false aa ab = some am) (x : Nat) :
    (∀ t, lookup x am = some t → ∃ ta tb, lookup x aa = some ta ∧ lookup x ab = some tb ∧ mergeRef true ta tb = some t) ∧
    (∀ ta, lookup x aa = some ta → lookup x ab = none → lookup x am = none) := by
  have := mergeNamed_lookup _ _ aa ab am sa sb h x
  constructor
  · intro t ht
    rw [ht] at this
    cases ha : lookup x aa <;> cases hb : lookup x ab <;> simp [ha, hb, slot] at this
    exact ⟨_, _, rfl, rfl, this.symm⟩
  · intro ta ha hb
    rw [ha, hb] at this
    simp only [slot] at this
    rw [this]
    split <;> simp_all

/-- **Union contains everything at least one service supports** (types; same for fields). -/
theorem union_contains_all (a b m : Schema) (sa : Sorted a) (sb : Sorted b)
    (h : mergeSchemas true a b = some m) (t : Nat) :
    ((lookup t a).isSome ∨ (lookup t b).isSome) → (lookup t m).isSome := by
  have := mergeNamed_lookup _ _ a b m sa sb h t
  intro hor
  rw [this]
  cases ha : lookup t a with
  | none =>
    cases hb : lookup t b with
    | none => simp [ha, hb] at hor
    | some db => simp [slot]
  | some da =>
    cases hb : lookup t b with
    | none => simp [slot]
    | some db =>
      simp only [slot]
      -- both present: the merge of the two definitions succeeded, otherwise `h` would be `none`
      cases hm : mergeType true da db with
      | some d => simp
      | none =>
        exfalso
        have := mergeNamed_lookup _ _ a b m sa sb h t
        rw [ha, hb] at this
        simp only [slot, hm] at this
        -- a failed pair makes the whole merge fail; derive the contradiction from the join itself
        revert h
        clear this
        intro h
        have key : ∀ (as bs : Schema) r, Sorted as → Sorted bs → mergeSchemas true as bs = some r →
            ∀ k x y, lookup k as = some x → lookup k bs = some y → (mergeType true x y).isSome := by
          intro as bs
          unfold mergeSchemas
          fun_induction mergeNamed (mergeType true) (fun _ => some true) as bs with
          | case1 => intro r _ _ _ k x y hx; simp [lookup] at hx
          | case2 k' a as ih => intro r _ _ _ k x y _ hy; simp [lookup] at hy
          | case3 k' b bs ih => intro r _ _ _ k x y hx; simp [lookup] at hx
          | case4 ka a as kb b bs hlt ih =>
            intro r sa sb h k x y hx hy
            cases hr : mergeNamed (mergeType true) (fun _ => some true) as ((kb, b) :: bs) with
            | none => simp [hr] at h
            | some r' =>
              have hne : k ≠ ka := by
                intro e; subst e
                have : lookup k ((kb, b) :: bs) = none := lookup_none_of_lt k _ (by
                  intro p hp; simp only [List.mem_cons] at hp
                  rcases hp with rfl | hp
                  · exact hlt
                  · exact Nat.lt_trans hlt (sb.head_lt p hp))
                rw [this] at hy; cases hy
              simp [lookup, hne] at hx
              exact ih r' sa.tail sb hr k x y hx hy
          | case5 ka a as kb b bs hnlt hlt ih =>
            intro r sa sb h k x y hx hy
            cases hr : mergeNamed (mergeType true) (fun _ => some true) ((ka, a) :: as) bs with
            | none => simp [hr] at h
            | some r' =>
              have hne : k ≠ kb := by
                intro e; subst e
                have : lookup k ((ka, a) :: as) = none := lookup_none_of_lt k _ (by
                  intro p hp; simp only [List.mem_cons] at hp
                  rcases hp with rfl | hp
                  · exact hlt
                  · exact Nat.lt_trans hlt (sa.head_lt p hp))
                rw [this] at hx; cases hx
              simp [lookup, hne] at hy
              exact ih r' sa sb.tail hr k x y hx hy
          | case6 ka a as kb b bs hnlt hnlt' ih =>
            intro r sa sb h k x y hx hy
            have hkk : ka = kb := by omega
            subst hkk
            cases hm : mergeType true a b with
            | none => simp [hm] at h
            | some m' =>
              cases hr : mergeNamed (mergeType true) (fun _ => some true) as bs with
              | none => simp [hm, hr] at h
              | some r' =>
                by_cases hk : k = ka
                · subst hk; simp [lookup] at hx hy; subst hx; subst hy; simp [hm]
                · simp [lookup, hk] at hx hy
                  exact ih r' sa.tail sb.tail hr k x y hx hy
        have := key a b m sa sb h t da db ha hb
        simp [hm] at this

/-- the full statement "the fold over any number of services is order independent" -/
def FoldOrderIndependent (mode : Bool) : Prop :=
  ∀ (l l' : List Schema), l.Perm l' → (mergeSlice mode l).isSome = (mergeSlice mode l').isSome

/-- **Known finding C09-1** (the full statement is false of the current code for three services in
union mode; `fold2_order_independent` is the part that holds): service `x` requires argument
`a` of a shared field, service `y` does not know `a`, service `z` has it optional.  Folding
`[x, y, z]` is rejected (`a` is new and non-null when `x ∪ y` is formed) while `[y, z, x]` is
accepted (`y ∪ z` keeps the optional `a`, which then merges with `x`'s required one). -/
theorem union_three_services_order_dependent : ¬ FoldOrderIndependent true := by
  intro h
  let fld (args : List (Nat × Ty)) : Schema := [(1, .scalar), (2, .object [(1, ⟨.named 0 1, args⟩)])]
  let x := fld [(1, .nonNull (.named 0 1))]
  let y := fld []
  let z := fld [(1, .named 0 1)]
  have hp : [x, y, z].Perm [y, z, x] := by
    have : [x, y, z] = [x] ++ [y, z] := rfl
    rw [this]
    exact List.perm_append_comm
  have := h [x, y, z] [y, z, x] hp
  simp [x, y, z, fld, mergeSlice, List.foldlM, mergeSchemas, mergeNamed, mergeType, mergeFields, mergeField,
    mergeInputs, mergeRef, Ty.isNonNull, wrapIf] at this

/-- Non-vacuity and the two nullability rules on the repository's own example shapes:
`Int!` vs `Int` as an argument is `Int!`, as an output is `Int`; `[Int!]` vs `[Int]!` as an
output is `[Int]`. -/
example :
    mergeRef true (.nonNull (.named 0 1)) (.named 0 1) = some (.nonNull (.named 0 1)) ∧
    mergeRef false (.nonNull (.named 0 1)) (.named 0 1) = some (.named 0 1) ∧
    mergeRef false (.list (.nonNull (.named 0 1))) (.nonNull (.list (.named 0 1))) = some (.list (.named 0 1)) := by
  simp [mergeRef, wrapIf]

end TM.Properties.C09
