import ThunderProofs.Page.Spec
import ThunderProofs.Page.FilterTokens
/-!
# C11 — Pagination partitions the list

Model: `ThunderModel/Pagination.lean` (`graphql/schemabuilder/pagination.go`); helper lemmas in
`ThunderProofs/Page/*`.  `L` below is the filtered, stably sorted list of node keys
(`specList`); unique keys is the `Nodup` hypothesis.
-/
namespace TM.Properties.C11
open TM.Page

/-- **Forward walk.** For every duplicate-free list and every page size `n ≥ 1`, iterating
`first: n, after: endCursor` from no cursor while `hasNextPage` delivers exactly the list: every
element once, in order — and terminates (the fuel `length + 1` suffices). -/
theorem walk_forward (L : List Nat) (nd : L.Nodup) (n : Nat) (hn : 0 < n) :
    walk L n (L.length + 1) none = L :=
  walk_all L nd n hn

/-- **Backward walk** with `last: n, before: startCursor` while `hasPrevPage`. -/
theorem walk_backward (L : List Nat) (nd : L.Nodup) (n : Nat) (hn : 0 < n) :
    walkBack L n (L.length + 1) none = L :=
  walkBack_all L nd n hn

/-- **Every page is the specified page**: the window strictly between `after` and `before`
(unknown cursors ignored), cut by `first`/`last`; `hasNextPage` is true exactly when the page was
cut short by `first` or elements of `L` exist beyond the element named by `before`;
`hasPrevPage` symmetrically; start/end cursors are those of the first and last edge;
`totalCount = |L|`. -/
theorem page_exact (L : List Nat) (nd : L.Nodup) (first last after before : Option Nat) :
    paginate L first last after before = specPage L first last after before :=
  paginate_eq_spec L nd first last after before

/-- `hasNextPage`, spelled out. -/
theorem has_next_exact (L : List Nat) (nd : L.Nodup) (first last after before : Option Nat) :
    (paginate L first last after before).hasNext =
      ((match first with
          | some n => decide ((beforeWindow (afterWindow L after) before).length > n)
          | none => false) ||
       (match before with
          | some c => decide (c ∈ afterWindow L after) && decide (L.getLast? ≠ some c)
          | none => false)) := by
  rw [page_exact L nd]; rfl

/-- cursors are those of the first and the last edge; totalCount is the filtered count -/
theorem cursors_are_ends (L : List Nat) (first last after before : Option Nat) :
    let r := paginate L first last after before
    r.startCursor = r.edges.head? ∧ r.endCursor = r.edges.getLast? ∧ r.total = L.length := by
  simp [paginate]

/-- an unknown cursor is ignored -/
theorem unknown_cursor_ignored (L : List Nat) (nd : L.Nodup) (first last : Option Nat) (c d : Nat)
    (hc : c ∉ L) (hd : d ∉ L) :
    paginate L first last (some c) (some d) = paginate L first last none none := by
  rw [page_exact L nd, page_exact L nd]
  simp [specPage, afterWindow, beforeWindow, hc, hd]

/-- the list being paged is a permutation of the nodes that pass the text filter … -/
theorem sort_perm (nodes : List Node) (a : Args) (l : List Node) (h : applySort (applyFilter nodes a) a = .ok l) :
    l.Perm (applyFilter nodes a) := by
  unfold applySort at h
  split at h
  · injection h with h; subst h; exact List.Perm.refl _
  · cases h
  · injection h with h; subst h; exact List.mergeSort_perm _ _

theorem sortLe_trans (s : Nat) (d : Bool) (a b c : Node) : sortLe s d a b → sortLe s d b c → sortLe s d a c := by
  unfold sortLe; cases d <;> simp <;> omega

theorem sortLe_total (s : Nat) (d : Bool) (a b : Node) : (sortLe s d a b || sortLe s d b a) = true := by
  unfold sortLe; cases d <;> simp <;> omega

/-- … sorted in the requested order … -/
theorem sort_sorted (nodes : List Node) (a : Args) (s : Nat) (hs : a.sortBy = some (some s)) (l : List Node)
    (h : applySort (applyFilter nodes a) a = .ok l) :
    l.Pairwise (fun x y => sortLe s a.desc x y) := by
  unfold applySort at h
  rw [hs] at h
  injection h with h; subst h
  exact List.pairwise_mergeSort (sortLe_trans s a.desc) (sortLe_total s a.desc) _

/-- … and **stable**: two nodes that the order does not separate keep their relative order. -/
theorem sort_stable (nodes : List Node) (a : Args) (s : Nat) (hs : a.sortBy = some (some s)) (l : List Node)
    (h : applySort (applyFilter nodes a) a = .ok l) (x y : Node) (hxy : sortLe s a.desc x y)
    (hsub : [x, y].Sublist (applyFilter nodes a)) : [x, y].Sublist l := by
  unfold applySort at h
  rw [hs] at h
  injection h with h; subst h
  exact List.pair_sublist_mergeSort (sortLe_trans s a.desc) (sortLe_total s a.desc) hxy hsub

/-- the text filter keeps exactly the nodes for which some selected field matches -/
theorem filter_exact (nodes : List Node) (a : Args) (hf : a.filter = true) (n : Node) :
    n ∈ applyFilter nodes a ↔ n ∈ nodes ∧ a.fields.any (fun f => n.keep.getD f false) = true := by
  simp [applyFilter, hf]

/-- `getConnection` is `paginate` over the spec list, after the argument checks. -/
theorem connection_ok (nodes : List Node) (a : Args) (hne : nodes ≠ []) (L : List Nat)
    (hL : specList nodes a = .ok L) (h1 : intNeg a.first = false) (h2 : intNeg a.last = false)
    (h3 : (a.first.isSome && a.last.isSome) = false) :
    connection nodes a = .ok (paginate L (a.first.map Int.toNat) (a.last.map Int.toNat) a.after a.before) := by
  unfold specList at hL
  unfold connection
  have : nodes.isEmpty = false := by cases nodes <;> simp_all
  cases hs : applySort (applyFilter nodes a) a with
  | error e => simp [hs, Except.map] at hL
  | ok l =>
    simp [hs, Except.map] at hL
    subst hL
    simp [this, h1, h2, h3, bind, Except.bind]

/-- Non-vacuity: the design's example (`after: c1, before: c4` on `[1,2,3,4]`): nothing lies
beyond `4`, so `hasNextPage = false` (the unrepaired code answered `true`). -/
example : (paginate [1, 2, 3, 4] none none (some 1) (some 4)).hasNext = false ∧
    (paginate [1, 2, 3, 4] none none (some 1) (some 4)).edges = [2, 3] ∧
    walk [10, 20, 30, 40, 50] 2 6 none = [10, 20, 30, 40, 50] ∧
    walkBack [10, 20, 30, 40, 50] 2 6 none = [10, 20, 30, 40, 50] := by decide

/-! ### "passes the text filter": the tokens of the filter text (`ThunderModel/PageFilter.lean`)

The five equations below determine `tokRun .idle` on every text (a text is white space, a word
followed by white space, a quote or the end, or a quote followed by a phrase and a quote or the
end): no word and no phrase of the filter text is dropped, wherever it stands. -/

/-- **A word is a token wherever it ends**: at white space or at a double quote, whatever follows -/
theorem word_emitted (w : List Char) (hw : ∀ c ∈ w, plain c = true) (hne : w ≠ []) (c : Char)
    (hc : plain c = false) (rest : List Char) :
    tokRun .idle (w ++ c :: rest) = w :: tokRun (if isQ c then .phrase [] else .idle) rest := by
  cases w with
  | nil => exact absurd rfl hne
  | cons d w =>
    have hd := hw d (List.mem_cons_self)
    simp only [plain, Bool.and_eq_true, Bool.not_eq_true'] at hd
    simp only [List.cons_append, tokRun, tokStep, hd.1, hd.2, Bool.false_eq_true, if_false, List.nil_append]
    rw [tokRun_word_plain [d] w (fun e he => hw e (List.mem_cons_of_mem _ he))]
    by_cases hq : isQ c = true
    · simp [tokRun, tokStep, hq]
    · have hs : isSp c = true := by
        simp only [plain, Bool.and_eq_false_iff, Bool.not_eq_false'] at hc
        rcases hc with h | h
        · exact absurd h hq
        · exact h
      simp [tokRun, tokStep, hq, hs]

/-- a word that ends the text is a token -/
theorem word_emitted_at_end (w : List Char) (hw : ∀ c ∈ w, plain c = true) (hne : w ≠ []) :
    tokRun .idle w = [w] := by
  cases w with
  | nil => exact absurd rfl hne
  | cons d w =>
    have hd := hw d (List.mem_cons_self)
    simp only [plain, Bool.and_eq_true, Bool.not_eq_true'] at hd
    simp only [tokRun, tokStep, hd.1, hd.2, Bool.false_eq_true, if_false, List.nil_append]
    have := tokRun_word_plain [d] w (fun e he => hw e (List.mem_cons_of_mem _ he)) []
    simp only [List.append_nil] at this
    rw [this]; simp [tokRun, tokFlush]

/-- **A quoted phrase is a token**, white space included, and what follows it is read on -/
theorem phrase_emitted (p : List Char) (hp : ∀ c ∈ p, isQ c = false) (rest : List Char) :
    tokRun .idle ('"' :: (p ++ '"' :: rest)) = p :: tokRun .idle rest := by
  have hq : isQ '"' = true := by decide
  simp only [tokRun, tokStep, hq, if_true, List.nil_append]
  rw [tokRun_phrase_plain [] p hp]
  simp [tokRun, tokStep, hq]

/-- a quote that is never closed opens a phrase that runs to the end of the text -/
theorem phrase_unclosed (p : List Char) (hp : ∀ c ∈ p, isQ c = false) :
    tokRun .idle ('"' :: p) = [p] := by
  have hq : isQ '"' = true := by decide
  simp only [tokRun, tokStep, hq, if_true, List.nil_append]
  have := tokRun_phrase_plain [] p hp []
  simp only [List.append_nil, List.nil_append] at this
  rw [this]; simp [tokRun, tokFlush]

/-- white space between tokens is skipped -/
theorem space_skipped (c : Char) (hc : isSp c = true) (hq : isQ c = false) (rest : List Char) :
    tokRun .idle (c :: rest) = tokRun .idle rest := by
  simp [tokRun, tokStep, hc, hq]

/-- a text passes as soon as one non-empty token occurs in it; with no token everything passes -/
theorem passes_of_token (text : List Char) (toks : List (List Char)) (t : List Char) (ht : t ∈ toks) (hne : t ≠ [])
    (hin : isInfixB (t.map lowerAscii) (text.map lowerAscii) = true) : passes text toks = true := by
  simp only [passes, Bool.or_eq_true, List.any_eq_true]
  right
  exact ⟨t, ht, by simp [hin, hne]⟩

theorem passes_no_token (text : List Char) : passes text [] = true := by simp [passes]

/-- Non-vacuity: the word in front of a quote is kept (the unrepaired expression kept only the last
capture of a repetition and answered `[" monitor"]`), and "Dell monitor" passes. -/
example : tokens "27\" monitor".toList = ["27".toList, " monitor".toList] ∧
    tokens "a\"b\"".toList = ["a".toList, "b".toList] ∧
    tokens "\"hello world\"!".toList = ["hello world".toList, "!".toList] ∧
    passes "Dell monitor".toList (tokens "27\" monitor".toList) = true ∧
    passes "keyboard".toList (tokens "27\" monitor".toList) = false := by decide

end TM.Properties.C11
