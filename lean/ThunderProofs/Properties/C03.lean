import ThunderProofs.Diff.Self
import ThunderProofs.Diff.Js
/-!
# C03 — Diff/merge round trip

Property theorems only; helper lemmas live in `ThunderProofs/Diff/*`.
Model: `ThunderModel/{Json,Rle,Diff,Merge}.lean` (tied to `diff/diff.go`, `merge/merge.go`,
`client/src/merge.ts` by the correspondence check `bin/check C03`).
-/
namespace TM.Properties.C03
open TM TM.J

/-- **Round trip.** For all well-formed `old`, `new` (objects key-sorted and duplicate free — the
canonical form of a Go map — and `__key`s scalar), applying `Diff(old,new)` with `merge.Merge`
to the key-stripped old value yields the key-stripped new value.  Any fuel above `depth old`
works, i.e. there is no bound on size or depth. -/
theorem merge_diff (f : Nat) (old new : J) (hf : depth old < f) (wo : WFJ old) (wn : WFJ new) :
    applyA f (strip old) (diffA reorder f old new) = .ok (strip new) :=
  roundtripA reorder goodAsg_reorder f old new hf wo wn

/-- The round trip does not depend on *how* array elements are matched: it holds for every
index assignment of the right length (so a different, even worse, matching heuristic in
`computeReorderIndices` cannot break convergence). -/
theorem merge_diff_any_matching (asg : List J → List J → List Int) (ga : GoodAsg asg)
    (f : Nat) (old new : J) (hf : depth old < f) (wo : WFJ old) (wn : WFJ new) :
    applyA f (strip old) (diffA asg f old new) = .ok (strip new) :=
  roundtripA asg ga f old new hf wo wn

/-- **Round trip for the JavaScript client** (`client/src/merge.ts`, the documented delta format). -/
theorem mergeJs_diff (f : Nat) (old new : J) (hf : depth old < f) (wo : WFJ old) (wn : WFJ new) :
    applyJs f (strip old) (diffA reorder f old new) = .ok (strip new) :=
  roundtripJs reorder goodAsg_reorder f old new hf wo wn

/-- The round trip never relies on what `merge.Merge` answers for "object delta on a non-container"
(Go returns `nil, nil`): it holds whatever that answer is, because `Diff` never emits such a pair. -/
theorem merge_diff_strict (bad : Except String J) (f : Nat) (old new : J) (hf : depth old < f)
    (wo : WFJ old) (wn : WFJ new) :
    applyG bad f (strip old) (diffA reorder f old new) = .ok (strip new) :=
  roundtripA reorder goodAsg_reorder f old new hf wo wn

/-- **`Diff(x, x)` is empty** for every well-formed value and every fuel. -/
theorem diff_self (f : Nat) (x : J) (w : WFJ x) : diffA reorder f x x = none :=
  diffA_self f x w

/-- `uncompressIndices (compressReorderIndices l) = l` for **every** index list. -/
theorem uncompress_compress (l : List Int) : Rle.uncompress (Rle.compress l) = l :=
  Rle.uncompress_compress l

/-- Applying `Diff(x,x)` leaves `strip x`. -/
theorem merge_diff_self (x : J) (w : WFJ x) :
    applyA (depth x + 1) (strip x) (diffA reorder (depth x + 1) x x) = .ok (strip x) :=
  merge_diff _ x x (by omega) w w

/-- Non-vacuity: a concrete reordered, keyed, nested pair satisfies the hypotheses, and the
delta is the one the package comment documents (`{"$": [1, 0], "1": {…}}`). -/
example :
    let old : J := .arr [.obj [(0, .sc 10), (1, .sc 20)], .obj [(0, .sc 13), (1, .sc 5)]]
    let new : J := .arr [.obj [(0, .sc 13), (1, .sc 5)], .obj [(0, .sc 10), (1, .sc 23)]]
    WFJ old ∧ WFJ new ∧
    diffA reorder 3 old new = some (.obj [(0, .arr [.sc 1, .sc 0]), (2, .obj [(1, .sc 23)])]) := by
  refine ⟨?_, ?_, ?_⟩
  · simp [WFJ, WFL, WFO, sortedK, keyOK, keyOf]
  · simp [WFJ, WFL, WFO, sortedK, keyOK, keyOf]
  · simp [diffA, diffArr, reorder, reorderFrom, findUnused, reorderKey, rkeyEq, keyOf, diffElems, pickOld,
      identityIdx, encIdx, Rle.compress, Rle.runLength, encItem, diffKvs, keyEq, List.range, List.range.loop]

end TM.Properties.C03
