import ThunderProofs.Gql.Args
/-!
# C18 — Arguments reach resolvers exactly as sent

Model: `ThunderModel/Gql/Args.lean` (`graphql/parser.go` `valueToJson` + variable defaults,
`graphql/schemabuilder/input.go`).
-/
namespace TM.Properties.C18
open TM.Args

/-- **Literal = variable = the value sent.** For every argument type and every well-typed value
(integers within the range of their kind; the JSON number carries them exactly up to 2^53),
the GraphQL literal spelling of the value is converted to the very JSON a variable carries for it,
and that JSON parses to the value. -/
theorem literal_eq_variable (f : Nat) (τ : ATy) (v : GV) (wt : WT τ v) (hf : τ.depth < f)
    (vars : List (Nat × JV)) (u : Nat) (hu : lookup u vars = none) (hk : keysOK v = true) :
    litJson vars (litOf u v) = .ok (jsonOf v) ∧ parse f τ (jsonOf v) = .ok v :=
  ⟨litJson_litOf vars u hu v hk, parse_jsonOf f τ v wt hf⟩

/-- a variable reference is replaced by the variable's value, an unbound one by `null` -/
theorem variable_is_its_value (vars : List (Nat × JV)) (n : Nat) :
    litJson vars (.var n) = .ok ((lookup n vars).getD .null) := by simp [litJson]

/-- **A default is used exactly when no non-null value is supplied** (one nullable variable
with a default): a supplied non-null value wins, `null` or absence takes the default. -/
theorem default_iff_no_value (name : Nat) (lit : Lit) (vars : List (Nat × JV)) (j : JV)
    (hj : litJson vars lit = .ok j) :
    (applyDefaults [⟨name, false, some lit⟩] vars).map (lookup name) =
      .ok (match lookup name vars with
        | some .null | none => some j
        | some x => some x) := by
  simp only [applyDefaults, List.foldlM_cons, List.foldlM_nil]
  cases hl : lookup name vars with
  | none => simp [hl, hj, bind, Except.bind, Except.map, pure, Except.pure, lookup]
  | some x =>
    cases x <;> simp [hl, hj, bind, Except.bind, Except.map, pure, Except.pure, lookup]

/-- a required variable may not declare a default -/
theorem required_variable_no_default (name : Nat) (lit : Lit) (vars : List (Nat × JV)) :
    applyDefaults [⟨name, true, some lit⟩] vars = .error .kind := by
  simp [applyDefaults, List.foldlM_cons, bind, Except.bind]

/-- **Values of the wrong kind are rejected**: whenever the JSON kind is not the one the type
accepts (nor `null` for a pointer / optional argument), parsing fails. -/
theorem wrong_kind_rejected (f : Nat) (τ : ATy) (j : JV) (h : compatible τ j = false) :
    ∃ e, parse f τ j = .error e :=
  parse_incompatible f τ j h

/-- **A missing required argument is rejected.** -/
theorem missing_required_rejected (f : Nat) (τ : ATy) (h : τ.notNullable = true) :
    ∃ e, parse f τ .null = .error e :=
  parse_missing_required f τ h

/-- **Optional arguments left out arrive as nil or zero.** -/
theorem optional_absent_zero (f : Nat) (t : ATy) :
    parse (f + 1) (.ptr t) .null = .ok .nil ∧ parse (f + 1) (.optional t) .null = .ok (zero f t) := by
  simp [parse]

/-- an enum argument accepts exactly the declared values -/
theorem enum_exact (f : Nat) (vals : List Nat) (n : Nat) :
    (parse (f + 1) (.enum vals) (.enumStr n) = .ok (.enumv n)) ↔ vals.contains n = true := by
  simp only [parse]; split <;> simp_all

/-- Non-vacuity: a nested input object with a list, an enum, a nil pointer and a `uint8` at its
maximum is well typed, and both transports deliver it. -/
example :
    let τ : ATy := .struct [(1, .list (.int ⟨.w8, false⟩)), (2, .enum [5, 6]), (3, .ptr .str)]
    let v : GV := .struct [(1, .list [.i ⟨.w8, false⟩ 255, .i ⟨.w8, false⟩ 0]), (2, .enumv 6), (3, .nil)]
    parse 3 τ (jsonOf v) = .ok v ∧ litJson [] (litOf 9 v) = .ok (jsonOf v) := by
  refine ⟨?_, ?_⟩
  · simp [parse, jsonOf, jsonOfFields, jsonOfList, lookup, wrap, Width.pow, Except.map, List.mapM_cons, bind, Except.bind, pure, Except.pure]
  simp [litOf, litOfFields, litOfList, litJson, litJsonObj, litJsonList, jsonOf, jsonOfFields, jsonOfList,
    lookup, bind, Except.bind, Except.map]

end TM.Properties.C18
