import ThunderModel.OneShot
namespace TM.OneShot

/-- a rerunner that gave up saw a cancelled context -/
def Inv (s : St) : Prop := s.runner = .abandoned → s.cancelled = true

theorem inv_init : Inv init := by intro h; cases h

theorem inv_step (rep : Bool) (s s' : St) (l : Label) (h : Inv s) (hs : step rep s l = some s') : Inv s' := by
  obtain ⟨c, r, hd⟩ := s
  cases l <;> simp only [step] at hs
  · by_cases hc : c = true <;> simp [hc] at hs
    subst hs; intro _; rfl
  · by_cases hr : r = .pending <;> simp [hr] at hs
    subst hs
    intro ha
    by_cases hc : c = true
    · simpa using hc
    · simp [hc] at ha
  · by_cases hr : r = .running <;> simp [hr] at hs
    subst hs; intro ha; cases ha
  · split at hs
    · injection hs with hs; subst hs; exact h
    · cases hs
  · split at hs
    · injection hs with hs; subst hs; exact h
    · cases hs

theorem inv_run (rep : Bool) : ∀ (ls : List Label) (s s' : St), Inv s → run rep s ls = some s' → Inv s' := by
  intro ls
  induction ls with
  | nil => intro s s' h hr; simp [run] at hr; subst hr; exact h
  | cons l ls ih =>
    intro s s' h hr
    simp only [run] at hr
    cases hs : step rep s l with
    | none => simp [hs] at hr
    | some s1 => simp only [hs] at hr; exact ih s1 s' (inv_step rep s s1 l h hs) hr

/-- **after the repair the handler can never be stuck**: in every state satisfying the invariant
in which the handler has not returned, a step other than `cancel` is enabled -/
theorem progress_repaired (s : St) (h : Inv s) (hn : s.handler ≠ .returned) : canProgress true s = true := by
  obtain ⟨c, r, hd⟩ := s
  cases hd with
  | returned => exact absurd rfl hn
  | waiting =>
    cases r with
    | pending => simp [canProgress, step]
    | running => simp [canProgress, step]
    | finished => simp [canProgress, step]
    | abandoned =>
      have : c = true := h rfl
      subst this
      simp [canProgress, step]
  | stopping =>
    cases r <;> simp [canProgress, step]

/-- every step strictly decreases this measure, so every schedule is finite -/
def measure (s : St) : Nat :=
  (if s.cancelled then 0 else 1) +
  (match s.runner with | .pending => 2 | .running => 1 | .finished => 0 | .abandoned => 0) +
  (match s.handler with | .waiting => 2 | .stopping => 1 | .returned => 0)

theorem step_decreases (rep : Bool) (s s' : St) (l : Label) (hs : step rep s l = some s') : measure s' < measure s := by
  obtain ⟨c, r, hd⟩ := s
  cases l <;> simp only [step] at hs
  · by_cases hc : c = true <;> simp [hc] at hs
    subst hs; simp [measure, hc]
  · by_cases hr : r = .pending <;> simp [hr] at hs
    subst hs; subst hr
    by_cases hc : c = true <;> simp [measure, hc]
  · by_cases hr : r = .running <;> simp [hr] at hs
    subst hs; subst hr; simp [measure]
  · split at hs
    · rename_i hcond
      injection hs with hs; subst hs
      have : hd = .waiting := hcond.1
      subst this; simp [measure]
    · cases hs
  · split at hs
    · rename_i hcond
      injection hs with hs; subst hs
      have : hd = .stopping := hcond.1
      subst this; simp [measure]
    · cases hs

end TM.OneShot
