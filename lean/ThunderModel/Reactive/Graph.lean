/-! The reactive invalidation graph (`reactive/graph.go`) and rerunners (`reactive/rerunner.go`)
as a labelled transition system.  Every label is one critical section of the code (or an
external call); tasks are the goroutines / loop iterations committed to a future critical
section.  Release and the cache live in `ThunderModel/Reactive/Release.lean`. -/
namespace TM.Reactive

structure Node where
  out : List Nat := []
  invalidated : Bool := false
  /-- the rerunner whose rerun was registered with `handleInvalidate` -/
  handler : Option Nat := none
  /-- how often that handler has been fired -/
  fired : Nat := 0
deriving Repr, DecidableEq

structure Rr where
  /-- node of the last successful run -/
  comp : Option Nat := none
  /-- node of the run in progress (the rerunner's mutex is held) -/
  inRun : Option Nat := none
  /-- the rerunner's context has been cancelled (`Stop` does this first; so does the parent context) -/
  cancelled : Bool := false
  stopped : Bool := false
  failed : Bool := false
  /-- bookkeeping: runs entered so far -/
  runs : Nat := 0
  /-- bookkeeping: reruns asked for by the current computation but dropped because the context
  was cancelled -/
  skipped : Nat := 0
deriving Repr, DecidableEq

structure St where
  nodes : List Node
  rrs : List Rr
  /-- committed future calls of `n.invalidate()` -/
  pendingInv : List Nat := []
  /-- committed future calls of `r.run()` -/
  pendingRun : List Nat := []
deriving Repr, DecidableEq

inductive Label where
  | newNode                       -- a resource or computation node is allocated (id = next index)
  | newRr                         -- NewRerunner: allocates a rerunner and spawns its first run
  | spawnInv (n : Nat)            -- Resource.Invalidate: `go r.invalidate()`
  | strobe (n : Nat)              -- critical section of strobe: snapshot of out
  | addOut (n to : Nat)           -- critical section of addOut
  | runInv (n : Nat)              -- critical section of invalidate (+ handler call)
  | rrEnter (r c : Nat)           -- run(): took r.mu, not stopped: computation on fresh node c starts
  | rrSkip (r : Nat)              -- run(): context cancelled (seen before taking r.mu) or stop set: returns without running
  | rrExitOk (r : Nat)            -- run returned: install computation, handleInvalidate, unlock
  | rrExitFail (r : Nat)          -- run returned an error: rerunner stops for good
  | rrExitRetry (r : Nat)         -- RetrySentinelError: `go r.run()`
  | rrCancel (r : Nat)            -- the rerunner's context is cancelled (first step of Stop)
  | rrStop (r : Nat)              -- Stop: took r.mu, set stop
deriving Repr, DecidableEq

def getNode (s : St) (n : Nat) : Node := s.nodes.getD n {}
def getRr (s : St) (r : Nat) : Rr := s.rrs.getD r {}
def setNode (s : St) (n : Nat) (v : Node) : St := { s with nodes := s.nodes.set n v }
def setRr (s : St) (r : Nat) (v : Rr) : St := { s with rrs := s.rrs.set r v }

def init : St := { nodes := [], rrs := [] }

/-- invalidating a node fires its handler (once) -/
def doInvalidate (s : St) (n : Nat) : St :=
  let x := getNode s n
  let s1 := setNode s n { x with invalidated := true, fired := if x.handler.isSome then x.fired + 1 else x.fired }
  let s2 := { s1 with pendingInv := x.out ++ s1.pendingInv }
  match x.handler with
  | some r => { s2 with pendingRun := r :: s2.pendingRun }
  | none => s2

/-- `handleInvalidate(f)` with `f` = rerun of `r`: fires at once if the node is already invalid -/
def doHandle (s : St) (n r : Nat) : St :=
  let x := getNode s n
  let s1 := setNode s n { x with handler := some r, fired := if x.invalidated then x.fired + 1 else x.fired }
  if x.invalidated then { s1 with pendingRun := r :: s1.pendingRun } else s1

def step (s : St) : Label → Option St
  | .newNode => some { s with nodes := s.nodes ++ [{}] }
  | .newRr => some { s with rrs := s.rrs ++ [{}], pendingRun := s.rrs.length :: s.pendingRun }
  | .spawnInv n => if n < s.nodes.length then some { s with pendingInv := n :: s.pendingInv } else none
  | .strobe n => if n < s.nodes.length then some { s with pendingInv := (getNode s n).out ++ s.pendingInv } else none
  | .addOut n to =>
      if n < s.nodes.length ∧ to < s.nodes.length then
        let x := getNode s n
        let s1 := setNode s n { x with out := to :: x.out }
        -- `shouldInvalidate`: go to.invalidate()
        some (if x.invalidated && !(getNode s to).invalidated then { s1 with pendingInv := to :: s1.pendingInv } else s1)
      else none
  | .runInv n =>
      if n < s.nodes.length ∧ n ∈ s.pendingInv then
        let s1 := { s with pendingInv := s.pendingInv.erase n }
        some (if (getNode s n).invalidated then s1 else doInvalidate s1 n)
      else none
  | .rrEnter r c =>
      let x := getRr s r
      if r < s.rrs.length ∧ r ∈ s.pendingRun ∧ x.inRun = none ∧ !x.stopped ∧ !x.failed ∧ c = s.nodes.length then
        some { setRr s r { x with inRun := some c, runs := x.runs + 1 } with
                 nodes := s.nodes ++ [{}], pendingRun := s.pendingRun.erase r }
      else none
  | .rrSkip r =>
      let x := getRr s r
      if r < s.rrs.length ∧ r ∈ s.pendingRun ∧ (x.cancelled || x.stopped || x.failed) then
        some { setRr s r { x with skipped := x.skipped + 1 } with pendingRun := s.pendingRun.erase r }
      else none
  | .rrExitOk r =>
      let x := getRr s r
      match x.inRun with
      | some c => if r < s.rrs.length then some (doHandle (setRr s r { x with comp := some c, inRun := none, skipped := 0 }) c r) else none
      | none => none
  | .rrExitFail r =>
      let x := getRr s r
      match x.inRun with
      | some _ => if r < s.rrs.length then some (setRr s r { x with inRun := none, failed := true }) else none
      | none => none
  | .rrExitRetry r =>
      let x := getRr s r
      match x.inRun with
      | some _ => if r < s.rrs.length then some { setRr s r { x with inRun := none } with pendingRun := r :: s.pendingRun } else none
      | none => none
  | .rrCancel r =>
      let x := getRr s r
      if r < s.rrs.length then some (setRr s r { x with cancelled := true }) else none
  | .rrStop r =>
      let x := getRr s r
      if r < s.rrs.length ∧ x.inRun = none then some (setRr s r { x with stopped := true }) else none

def run : St → List Label → Option St
  | s, [] => some s
  | s, l :: ls => match step s l with
      | some s' => run s' ls
      | none => none

end TM.Reactive
