/-! Reference counting and release in the reactive graph (`reactive/graph.go`: `release`,
`addOut`, `handleRelease`): a node is released when its last dependant goes away, and its
cleanup handler runs then.  One label per critical section; invalidation is in
`ThunderModel/Reactive/Graph.lean`. -/
namespace TM.Release

structure Node where
  out : List Nat := []
  ins : List Nat := []
  released : Bool := false
  /-- some `addOut` call has been made on the node (the contract of `Resource.Cleanup`) -/
  everOut : Bool := false
  handler : Bool := false
  /-- how often the `afterRelease` handler has run -/
  fired : Nat := 0
deriving Repr, DecidableEq

structure St where
  nodes : List Node := []
  /-- committed calls of `n.release()` that have not reached their critical section -/
  pendRel : List Nat := []
  /-- committed iterations `(from, n)` of release's loop over `n.in` -/
  pendEdge : List (Nat × Nat) := []
deriving Repr, DecidableEq

inductive Label where
  | newNode
  | callRelease (n : Nat)        -- the rerunner calls n.release(): superseded computation, Stop, failed run - nodes nothing depends on
  | addOut (n to : Nat)          -- critical section of addOut
  | relCS (n : Nat)              -- critical section of release on n (+ handler call)
  | relEdge (frm n : Nat)        -- critical section on `frm` in release(n)'s loop
  | handleRelease (n : Nat)
deriving Repr, DecidableEq

def getNode (s : St) (n : Nat) : Node := s.nodes.getD n {}
def setNode (s : St) (n : Nat) (v : Node) : St := { s with nodes := s.nodes.set n v }

def init : St := {}

def step (s : St) : Label → Option St
  | .newNode => some { s with nodes := s.nodes ++ [{}] }
  | .callRelease n =>
      -- the callers (`Rerunner.run`, `Stop`, `run` on an error) release root computations and computations that
      -- failed before anything could depend on them: never a node that something depends on
      if n < s.nodes.length ∧ (getNode s n).out = [] then some { s with pendRel := n :: s.pendRel } else none
  | .addOut n to =>
      if n < s.nodes.length ∧ to < s.nodes.length ∧ n ≠ to then
        let x := getNode s n
        let y := getNode s to
        if y.released then
          -- no edge; "after one call to addOut, n is guaranteed to be eventually released"
          let s1 := setNode s n { x with everOut := true }
          some (if x.out.isEmpty then { s1 with pendRel := n :: s1.pendRel } else s1)
        else if to ∈ x.out then
          some (setNode s n { x with everOut := true })
        else
          let s1 := setNode s n { x with out := to :: x.out, everOut := true }
          some (setNode s1 to { getNode s1 to with ins := n :: (getNode s1 to).ins })
      else none
  | .relCS n =>
      if n < s.nodes.length ∧ n ∈ s.pendRel then
        let s1 := { s with pendRel := s.pendRel.erase n }
        let x := getNode s n
        if x.released then some s1
        else
          let s2 := setNode s1 n { x with released := true, fired := if x.handler then x.fired + 1 else x.fired }
          some { s2 with pendEdge := (x.ins.map fun f => (f, n)) ++ s2.pendEdge }
      else none
  | .relEdge frm n =>
      if frm < s.nodes.length ∧ (frm, n) ∈ s.pendEdge then
        let s1 := { s with pendEdge := s.pendEdge.erase (frm, n) }
        let x := getNode s frm
        let out' := x.out.erase n
        let s2 := setNode s1 frm { x with out := out' }
        some (if out'.isEmpty then { s2 with pendRel := frm :: s2.pendRel } else s2)
      else none
  | .handleRelease n =>
      let x := getNode s n
      -- (a second handler on a live node panics in the code)
      if n < s.nodes.length ∧ x.handler = false then
        some (setNode s n { x with handler := true, fired := if x.released then x.fired + 1 else x.fired })
      else none

def run : St → List Label → Option St
  | s, [] => some s
  | s, l :: ls => match step s l with
      | some s' => run s' ls
      | none => none

end TM.Release
