/-!
# Thunder-managed Relay pagination (`graphql/schemabuilder/pagination.go`)

`getConnection` = `applyTextFilter` → `applySort` → `nodesToEdges` → `paginateManually` →
`setCursors`, for a connection that is *not* externally managed.

Nodes are abstract: `key` is the value of the key field (the cursor is its base64 print; keys
are assumed pairwise distinct — the `Nodup` hypothesis of the theorems), `keep f` says whether
filter field `f`'s text matches the search tokens, `sortKey s` is the value of sort field `s`
(strings: rank of the case-folded string).
-/
namespace TM.Page

structure Node where
  key : Nat
  keep : List Bool
  sortKey : List Int
deriving Repr

structure Args where
  first : Option Int := none
  last : Option Int := none
  after : Option Nat := none      -- cursor = key of the element
  before : Option Nat := none
  /-- `filterText` present and non-empty -/
  filter : Bool := false
  /-- selected filter fields (already intersected with the registered ones) -/
  fields : List Nat := []
  /-- `none`: no sortBy; `some none`: unknown sort field; `some (some s)`: sort field `s` -/
  sortBy : Option (Option Nat) := none
  desc : Bool := false
deriving Repr

structure Result where
  edges : List Nat
  hasNext : Bool
  hasPrev : Bool
  startCursor : Option Nat
  endCursor : Option Nat
  total : Nat
deriving Repr, DecidableEq

inductive Err where
  | negative | firstAndLast | unknownSort
deriving Repr, DecidableEq

/-- `applyTextFilter`: a node stays if any selected filter field matches. -/
def applyFilter (nodes : List Node) (a : Args) : List Node :=
  if a.filter then nodes.filter (fun n => a.fields.any (fun f => n.keep.getD f false)) else nodes

/-- the comparison handed to `sort.SliceStable`, as a `≤` (`¬ less b a`) -/
def sortLe (s : Nat) (desc : Bool) (a b : Node) : Bool :=
  if desc then decide (b.sortKey.getD s 0 ≤ a.sortKey.getD s 0)
  else decide (a.sortKey.getD s 0 ≤ b.sortKey.getD s 0)

/-- `applySort`: stable sort (`sort.SliceStable` is modelled by core's stable `mergeSort`). -/
def applySort (nodes : List Node) (a : Args) : Except Err (List Node) :=
  match a.sortBy with
  | none => .ok nodes
  | some none => .error .unknownSort
  | some (some s) => .ok (nodes.mergeSort (sortLe s a.desc))

def cursorIndex (edges : List Nat) (c : Nat) : Option Nat :=
  let i := edges.idxOf c
  if i < edges.length then some i else none

/-- the `after` half of `applyCursorsToAllEdges`: remaining edges, `elemsBefore` -/
def cutAfter (edges : List Nat) : Option Nat → List Nat × Bool
  | some c => match cursorIndex edges c with
      | some i => (edges.drop (i + 1), decide (i ≠ 0))
      | none => (edges, false)
  | none => (edges, false)

/-- the `before` half (runs on the edges left by `cutAfter`): remaining edges, `elemsAfter` -/
def cutBefore (edges : List Nat) : Option Nat → List Nat × Bool
  | some c => match cursorIndex edges c with
      | some i => (edges.take i, decide (i ≠ edges.length - 1))
      | none => (edges, false)
  | none => (edges, false)

/-- `applyCursorsToAllEdges` -/
def applyCursors (edges : List Nat) (before after : Option Nat) : List Nat × Bool × Bool :=
  let a := cutAfter edges after
  let b := cutBefore a.1 before
  (b.1, b.2, a.2)

def cutFirst (es : List Nat) (hasNext : Bool) : Option Nat → List Nat × Bool
  | some n => if es.length > n then (es.take n, true) else (es, hasNext)
  | none => (es, hasNext)

def cutLast (es : List Nat) (hasPrev : Bool) : Option Nat → List Nat × Bool
  | some n => if es.length > n then (es.drop (es.length - n), true) else (es, hasPrev)
  | none => (es, hasPrev)

/-- `paginateManually` + `setCursors` on the list of keys; `first`/`last` already checked. -/
def paginate (all : List Nat) (first last : Option Nat) (after before : Option Nat) : Result :=
  let c := applyCursors all before after
  let f := cutFirst c.1 (before.isSome && c.2.1) first
  let l := cutLast f.1 (after.isSome && c.2.2) last
  { edges := l.1, hasNext := f.2, hasPrev := l.2,
    startCursor := l.1.head?, endCursor := l.1.getLast?, total := all.length }

def emptyResult : Result :=
  { edges := [], hasNext := false, hasPrev := false, startCursor := none, endCursor := none, total := 0 }

def intNeg (o : Option Int) : Bool := match o with | some n => decide (n < 0) | none => false

/-- `getConnection` -/
def connection (nodes : List Node) (a : Args) : Except Err Result :=
  if nodes.isEmpty then .ok emptyResult
  else do
    let sorted ← applySort (applyFilter nodes a) a
    if intNeg a.first || intNeg a.last then .error .negative
    else if a.first.isSome && a.last.isSome then .error .firstAndLast
    else .ok (paginate (sorted.map (·.key)) (a.first.map Int.toNat) (a.last.map Int.toNat) a.after a.before)

/-! ## Specification -/

/-- the list a client is paging through: filtered, stably sorted -/
def specList (nodes : List Node) (a : Args) : Except Err (List Nat) :=
  (applySort (applyFilter nodes a) a).map (·.map (·.key))

/-- elements strictly after `after` (if present in `l`) -/
def afterWindow (l : List Nat) : Option Nat → List Nat
  | some c => if c ∈ l then (l.dropWhile (· != c)).drop 1 else l
  | none => l

/-- elements strictly before `before` (if present in `l`) -/
def beforeWindow (l : List Nat) : Option Nat → List Nat
  | some c => if c ∈ l then l.takeWhile (· != c) else l
  | none => l

/-- what the property demands of one page over the list `l` -/
def specPage (l : List Nat) (first last : Option Nat) (after before : Option Nat) : Result :=
  let w := beforeWindow (afterWindow l after) before
  let cutFirst := match first with | some n => decide (w.length > n) | none => false
  let w1 := match first with | some n => w.take n | none => w
  let cutLast := match last with | some n => decide (w1.length > n) | none => false
  let w2 := match last with | some n => w1.drop (w1.length - n) | none => w1
  let beyondBefore := match before with
    | some c => decide (c ∈ afterWindow l after) && decide (l.getLast? ≠ some c)
    | none => false
  let beyondAfter := match after with
    | some c => decide (c ∈ l) && decide (l.head? ≠ some c)
    | none => false
  { edges := w2, hasNext := cutFirst || beyondBefore, hasPrev := cutLast || beyondAfter,
    startCursor := w2.head?, endCursor := w2.getLast?, total := l.length }

/-! ## Walks -/

/-- forward: `first: n`, then `after: endCursor` while `hasNextPage` -/
def walk (all : List Nat) (n : Nat) : Nat → Option Nat → List Nat
  | 0, _ => []
  | fuel + 1, cur =>
      let r := paginate all (some n) none cur none
      if r.hasNext then r.edges ++ walk all n fuel r.endCursor else r.edges

/-- backward: `last: n`, then `before: startCursor` while `hasPrevPage` -/
def walkBack (all : List Nat) (n : Nat) : Nat → Option Nat → List Nat
  | 0, _ => []
  | fuel + 1, cur =>
      let r := paginate all none (some n) none cur
      if r.hasPrev then walkBack all n fuel r.startCursor ++ r.edges else r.edges

end TM.Page
