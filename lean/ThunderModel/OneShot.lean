/-! One-shot requests (`graphql/http.go` `ServeHTTP`, `federation/server.go` `ExecuteRequest`): the
handler starts a rerunner, waits for its first run and stops it.  The rerunner goroutine first
looks at the request context: if it is already cancelled it returns without ever running the
computation. -/
namespace TM.OneShot

inductive Runner where
  | pending      -- goroutine started, has not looked at the context yet
  | running      -- computation in progress
  | finished     -- first run done (signals the handler)
  | abandoned    -- saw a cancelled context: the computation never runs
deriving Repr, DecidableEq

inductive Handler where
  | waiting      -- blocked until the first run is over
  | stopping     -- in `Rerunner.Stop` (needs the rerunner's mutex, held while a run is in progress)
  | returned
deriving Repr, DecidableEq

structure St where
  cancelled : Bool
  runner : Runner
  handler : Handler
deriving Repr, DecidableEq

inductive Label where
  | cancel       -- the client goes away / a sibling sub-query fails (environment)
  | sched        -- the rerunner goroutine gets to run
  | finish       -- the computation returns
  | wake         -- the handler's wait is over
  | stopped      -- `Stop` returns, the handler returns
deriving Repr, DecidableEq

def init : St := ⟨false, .pending, .waiting⟩

/-- `repaired = true`: the handler also wakes up when the request context is cancelled
(the code after the fix); `false`: it only waits for the first run (the code before) -/
def step (repaired : Bool) (s : St) : Label → Option St
  | .cancel => if s.cancelled then none else some { s with cancelled := true }
  | .sched =>
      if s.runner = .pending then
        some { s with runner := if s.cancelled then .abandoned else .running }
      else none
  | .finish => if s.runner = .running then some { s with runner := .finished } else none
  | .wake =>
      if s.handler = .waiting ∧ (s.runner = .finished ∨ (repaired ∧ s.cancelled)) then
        some { s with handler := .stopping }
      else none
  | .stopped =>
      if s.handler = .stopping ∧ s.runner ≠ .running then some { s with handler := .returned } else none

def run (repaired : Bool) : St → List Label → Option St
  | s, [] => some s
  | s, l :: ls => match step repaired s l with
      | some s' => run repaired s' ls
      | none => none

/-- a step other than the environment's `cancel` is enabled -/
def canProgress (repaired : Bool) (s : St) : Bool :=
  [Label.sched, .finish, .wake, .stopped].any fun l => (step repaired s l).isSome

end TM.OneShot
