import ThunderModel.Merge
/-!
# `merge` of `client/src/merge.ts`

Transcription of the TypeScript client merge.  JavaScript `undefined` is represented by `.null`
(`JSON.stringify` prints an undefined array slot as `null`; the comparison with the real code
is on the JSON text).  Differences from the Go merge that the transcription keeps:
a field that is new is merged into `undefined` (full `merge`, not only a replacement), removing
an absent field is a no-op, an object delta applied to a non-container builds a fresh object,
and an element delta beyond the end extends the array.  The reorder list is decoded with the
same `decIdx` (`[start, count]` runs); JavaScript's coercions on malformed index entries are
outside the model (`Diff` never emits them).
-/
namespace TM
namespace J

/-- non-object updates: `update[0]` for an array, the value itself otherwise (no recursion) -/
def jsLeaf : J → J
  | .arr (x :: _) => x
  | .arr [] => .null   -- undefined
  | d => d

/-- `merge(undefined, d)` for a field that is new: only an object delta recurses -/
def jsNew (m : J → J → Except String J) (d : J) : Except String J :=
  match d with
  | .obj _ => m .null d
  | _ => .ok (jsLeaf d)

def mergeKvsJs (m : J → J → Except String J) :
    List (Nat × J) → List (Nat × J) → Except String (List (Nat × J))
  | [], [] => .ok []
  | (k, v) :: ps, [] => (mergeKvsJs m ps []).map ((k, v) :: ·)
  | [], (k, d) :: ds =>
      if isRemoved d then mergeKvsJs m [] ds
      else do
        let v ← jsNew m d
        let r ← mergeKvsJs m [] ds
        .ok ((k, v) :: r)
  | (kp, vp) :: ps, (kd, d) :: ds =>
      if kp < kd then (mergeKvsJs m ps ((kd, d) :: ds)).map ((kp, vp) :: ·)
      else if kd < kp then
        if isRemoved d then mergeKvsJs m ((kp, vp) :: ps) ds
        else do
          let v ← jsNew m d
          let r ← mergeKvsJs m ((kp, vp) :: ps) ds
          .ok ((kd, v) :: r)
      else if isRemoved d then mergeKvsJs m ps ds
      else do
        let v ← m vp d
        let r ← mergeKvsJs m ps ds
        .ok ((kp, v) :: r)
termination_by ps ds => ps.length + ds.length

/-- `merged[i] = v`, extending the array with holes when `i` is past the end -/
def setPad (base : List J) (i : Nat) (v : J) : List J :=
  if i < base.length then base.set i v
  else base ++ List.replicate (i - base.length) .null ++ [v]

def applyElemsJs (m : J → J → Except String J) : List J → List (Nat × J) → Except String (List J)
  | base, [] => .ok base
  | base, (k, d) :: rest =>
      if k = 0 then .error "misplaced $"
      else do
        let v ← m (base.getD (k - 1) .null) d
        applyElemsJs m (setPad base (k - 1) v) rest

def mergeArrJs (m : J → J → Except String J) (ps : List J) : List (Nat × J) → Except String J
  | (0, enc) :: rest => do
      let idx ← decIdx enc
      let r ← applyElemsJs m (idx.map (pickOld ps)) rest
      .ok (.arr r)
  | rest => (applyElemsJs m ps rest).map .arr

/-- `merge(original, update)` -/
def mergeJs : Nat → J → J → Except String J
  | 0, _, .obj _ => .error "fuel"
  | f+1, .arr ps, .obj dkvs => mergeArrJs (mergeJs f) ps dkvs
  | f+1, .obj pkvs, .obj dkvs => (mergeKvsJs (mergeJs f) pkvs dkvs).map .obj
  | f+1, _, .obj dkvs => (mergeKvsJs (mergeJs f) [] dkvs).map .obj
  | _, _, d => .ok (jsLeaf d)

def applyJs (f : Nat) (prev : J) : Option J → Except String J
  | none => .ok prev
  | some d => mergeJs f prev d

def mergeJsTop (prev delta : J) : Except String J := mergeJs (depth prev + depth delta + 2) prev delta

end J
end TM
