/-! The key selection of a hop (`federation/planner_helpers.go`: `getFederatedSelectionsForObject`, called by
`planObject` with the selections handed to other services): the `_federation { ... }` selection added to the
sub-query of the service the gateway hops *from* lists, in the order of their names, the fields of the object
that some service it hops *to* declares as a key of the object (`Field.FederatedKey[service]`: the fields of
the key type of that service's `FetchObjectFromKeys`). -/
namespace TM.Fed.Keys

/-- `fields`: the fields of the type, in name order; `isKey s f`: service `s` declares field `f` as a key -/
def keySel (fields : List Nat) (isKey : Nat → Nat → Bool) (targets : List Nat) : List Nat :=
  fields.filter fun f => targets.any fun s => isKey s f

/-- a design that looks at the first hop target only -/
def keySelFirst (fields : List Nat) (isKey : Nat → Nat → Bool) : List Nat → List Nat
  | [] => []
  | s :: _ => fields.filter fun f => isKey s f

end TM.Fed.Keys
