/-!
# Introspection-schema merge (`federation/merge_schemas.go`)

Schemas are name-sorted, duplicate-free lists (the Go code builds a map by name and emits in
`sort.Strings` order; names are interned so that `Nat` order is string order).
`mode = true` is `Union` (independent services), `false` is `Intersection` (versions of one service).
-/
namespace TM.SM

/-- `introspectionTypeRef` -/
inductive Ty where
  | named (kind : Nat) (name : Nat)     -- SCALAR / ENUM / INPUT_OBJECT / UNION / OBJECT with a name
  | list (of : Ty)
  | nonNull (of : Ty)
deriving DecidableEq, Repr

def wrapIf (c : Bool) (t : Ty) : Ty := if c then .nonNull t else t

/-- `mergeTypeRefs a b isInput`; `none` = incompatible. -/
def mergeRef (isInput : Bool) : Ty → Ty → Option Ty
  | .nonNull a, .nonNull b => (mergeRef isInput a b).map .nonNull
  | .nonNull a, .named k n => (mergeRef isInput a (.named k n)).map (wrapIf isInput)
  | .nonNull a, .list b => (mergeRef isInput a (.list b)).map (wrapIf isInput)
  | .named k n, .nonNull b => (mergeRef isInput (.named k n) b).map (wrapIf isInput)
  | .list a, .nonNull b => (mergeRef isInput (.list a) b).map (wrapIf isInput)
  | .named k n, .named k' n' => if k = k' ∧ n = n' then some (.named k n) else none
  | .list a, .list b => (mergeRef isInput a b).map .list
  | .named _ _, .list _ => none
  | .list _, .named _ _ => none
termination_by a b => sizeOf a + sizeOf b

def Ty.isNonNull : Ty → Bool
  | .nonNull _ => true
  | _ => false

/-- the bare (nullability-erased) shape of a type -/
def erase : Ty → Ty
  | .named k n => .named k n
  | .list t => .list (erase t)
  | .nonNull t => erase t

/-- generic merge-join of two name-sorted lists: `both` combines entries present on both
sides, `single` decides about an entry present on one side only (`none` = error,
`some keep`) -/
def mergeNamed {α : Type} (both : α → α → Option α) (single : α → Option Bool) :
    List (Nat × α) → List (Nat × α) → Option (List (Nat × α))
  | [], [] => some []
  | (k, a) :: as, [] => do
      let keep ← single a
      let r ← mergeNamed both single as []
      pure (if keep then (k, a) :: r else r)
  | [], (k, b) :: bs => do
      let keep ← single b
      let r ← mergeNamed both single [] bs
      pure (if keep then (k, b) :: r else r)
  | (ka, a) :: as, (kb, b) :: bs =>
      if ka < kb then do
        let keep ← single a
        let r ← mergeNamed both single as ((kb, b) :: bs)
        pure (if keep then (ka, a) :: r else r)
      else if kb < ka then do
        let keep ← single b
        let r ← mergeNamed both single ((ka, a) :: as) bs
        pure (if keep then (kb, b) :: r else r)
      else do
        let m ← both a b
        let r ← mergeNamed both single as bs
        pure ((ka, m) :: r)
termination_by as bs => as.length + bs.length

/-- `mergeInputFields`: a field known to one side only must be nullable; it is kept in a union -/
def mergeInputs (mode : Bool) : List (Nat × Ty) → List (Nat × Ty) → Option (List (Nat × Ty)) :=
  mergeNamed (mergeRef true) (fun t => if t.isNonNull then none else some mode)

/-- `introspectionField`: output type and arguments -/
structure Field where
  type : Ty
  args : List (Nat × Ty)
deriving DecidableEq, Repr

def mergeField (mode : Bool) (a b : Field) : Option Field := do
  let t ← mergeRef false a.type b.type
  let args ← mergeInputs mode a.args b.args
  pure ⟨t, args⟩

/-- `mergeFields` -/
def mergeFields (mode : Bool) : List (Nat × Field) → List (Nat × Field) → Option (List (Nat × Field)) :=
  mergeNamed (mergeField mode) (fun _ => some mode)

/-- `mergePossibleTypes` / `mergeEnumValues`: name sets -/
def mergeNames (mode : Bool) : List (Nat × Unit) → List (Nat × Unit) → Option (List (Nat × Unit)) :=
  mergeNamed (fun _ _ => some ()) (fun _ => some mode)

/-- `introspectionType` by kind -/
inductive TypeDef where
  | scalar
  | enum (values : List (Nat × Unit))
  | union (members : List (Nat × Unit))
  | object (fields : List (Nat × Field))
  | input (fields : List (Nat × Ty))
deriving DecidableEq, Repr

/-- `mergeTypes` -/
def mergeType (mode : Bool) : TypeDef → TypeDef → Option TypeDef
  | .scalar, .scalar => some .scalar
  | .enum a, .enum b => (mergeNames mode a b).map .enum
  | .union a, .union b => (mergeNames mode a b).map .union
  | .object a, .object b => (mergeFields mode a b).map .object
  | .input a, .input b => (mergeInputs mode a b).map .input
  | _, _ => none

abbrev Schema := List (Nat × TypeDef)

/-- `mergeSchemas` -/
def mergeSchemas (mode : Bool) : Schema → Schema → Option Schema :=
  mergeNamed (mergeType mode) (fun _ => some mode)

/-- `mergeSchemaSlice` -/
def mergeSlice (mode : Bool) : List Schema → Option Schema
  | [] => none
  | s :: rest => rest.foldlM (mergeSchemas mode) s

def lookup {α : Type} (k : Nat) : List (Nat × α) → Option α
  | [] => none
  | (k', a) :: r => if k = k' then some a else lookup k r

/-! ## What validation relies on

`accepts σ τ v`: an argument value `v` is accepted for declared type `τ` under schema `σ`
(thunder's argument parsers: `null` only for nullable types, enum literals among the type's
values, unknown keys of an input object ignored, every declared key checked). -/

inductive Val where
  | null
  | scalar (name : Nat)         -- a literal acceptable for the scalar type `name`
  | enumLit (v : Nat)
  | list (xs : List Val)
  | obj (kvs : List (Nat × Val))
deriving Repr

mutual
def accepts (σ : Schema) : Nat → Ty → Val → Bool
  | 0, _, _ => false
  | _+1, .nonNull _, .null => false
  | f+1, .nonNull t, v => accepts σ f t v
  | _+1, _, .null => true
  | f+1, .list t, .list xs => acceptsAll σ f t xs
  | _+1, .list _, _ => false
  | f+1, .named _ n, v =>
      match lookup n σ, v with
      | some .scalar, .scalar m => n == m
      | some (.enum vals), .enumLit x => (lookup x vals).isSome
      | some (.input fields), .obj kvs => acceptsFields σ f fields kvs
      | _, _ => false
def acceptsAll (σ : Schema) : Nat → Ty → List Val → Bool
  | _, _, [] => true
  | f, t, x :: xs => accepts σ f t x && acceptsAll σ f t xs
def acceptsFields (σ : Schema) : Nat → List (Nat × Ty) → List (Nat × Val) → Bool
  | _, [], _ => true
  | f, (k, t) :: rest, kvs => accepts σ f t ((lookup k kvs).getD .null) && acceptsFields σ f rest kvs
end

end TM.SM
