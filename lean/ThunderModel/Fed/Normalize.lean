import ThunderModel.Fed.Gateway
/-!
# The gateway's normalizer on object types (`federation/normalize.go`: `flattenFragments`,
`mergeSameAlias`, `flatten`) and the combined server's own reading of a raw query

A raw selection carries the verdict of its directives (`ShouldIncludeNode`: the generated
queries use literal `@skip` / `@include` arguments).  Both functions consume one unit of fuel per
object level, so they can be compared at equal fuel.
-/
namespace TM.Fed.Gateway

mutual
inductive RSel where
  | mk (alias name : Nat) (incl : Bool) (sub : RSet)
inductive RSet where
  | mk (sels : List RSel) (frags : List RFrag)
inductive RFrag where
  | mk (on : Nat) (incl : Bool) (set : RSet)
end

def RSel.alias : RSel → Nat | .mk a _ _ _ => a
def RSel.name : RSel → Nat | .mk _ n _ _ => n
def RSel.incl : RSel → Bool | .mk _ _ i _ => i
def RSel.sub : RSel → RSet | .mk _ _ _ s => s
def RSet.sels : RSet → List RSel | .mk s _ => s
def RSet.frags : RSet → List RFrag | .mk _ f => f
def RFrag.on : RFrag → Nat | .mk o _ _ => o
def RFrag.incl : RFrag → Bool | .mk _ i _ => i
def RFrag.set : RFrag → RSet | .mk _ _ s => s

/-- `flattenFragments` (after the repair: a selection excluded by its directives contributes
nothing): the included selections of the set, then those of every included fragment whose type
condition applies to the object type, recursively -/
def collect (applies : Nat → Nat → Bool) (t : Nat) : Nat → RSet → List RSel
  | 0, _ => []
  | f + 1, s =>
    s.sels.filter (·.incl) ++
      (s.frags.filter fun fr => fr.incl && applies fr.on t).flatMap fun fr => collect applies t f fr.set

/-- the selections with response key `a` -/
def groupOf (a : Nat) (c : List RSel) : List RSel := c.filter fun s => s.alias == a

/-- `mergeSameAlias` (after the repair: all sub-selections of all occurrences are kept) -/
def mergedSub (g : List RSel) : RSet :=
  .mk (g.flatMap fun s => s.sub.sels) (g.flatMap fun s => s.sub.frags)

def nameOf (g : List RSel) : Nat := match g with | s :: _ => s.name | [] => 0

/-- response keys, each once, in increasing order (`sort.Slice` by alias, then merging neighbours) -/
def sortedAliases : List RSel → List Nat
  | [] => []
  | s :: r => insertSorted s.alias (sortedAliases r)

/-- response keys, each once, in order of first occurrence (the executor's `Flatten`) -/
def firstAliases : List RSel → List Nat
  | [] => []
  | s :: r => s.alias :: (firstAliases r).filter (· != s.alias)

/-- the normalized selection for response key `a` with occurrences `g`: the field of the first
occurrence, and — for an object-valued field — the normalized merged sub-selection -/
def mkSel (child : Nat → Nat → Option Nat) (norm : Nat → RSet → List Q) (t a : Nat) (g : List RSel) : Q :=
  match child t (nameOf g) with
  | none => Q.sel a (nameOf g) []
  | some ct => Q.sel a (nameOf g) (norm ct (mergedSub g))

/-- `flatten` on an object type: the normalized query -/
def normalize (applies : Nat → Nat → Bool) (child : Nat → Nat → Option Nat) : Nat → Nat → RSet → List Q
  | 0, _, _ => []
  | f + 1, t, s =>
    let c := collect applies t (f + 1) s
    (sortedAliases c).map fun a => mkSel child (normalize applies child f) t a (groupOf a c)

/-- the value of a response key with occurrences `g` -/
def rawVal (st : Store) (ev : RSet → Ref → List (Nat × R)) (r : Ref) (g : List RSel) : R :=
  if nameOf g = TYPENAME then R.sc r.t
  else onValue (st r (nameOf g)) fun r' => ev (mergedSub g) r'

/-- the combined server on the raw query: collect the fields of the object, one value per
response key from the merged sub-selections of all its occurrences -/
def evalRaw (applies : Nat → Nat → Bool) (st : Store) : Nat → RSet → Ref → List (Nat × R)
  | 0, _, _ => []
  | f + 1, s, r =>
    let c := collect applies r.t (f + 1) s
    (firstAliases c).map fun a => (a, rawVal st (evalRaw applies st f) r (groupOf a c))

/-! ### the code before the repairs, for the witnesses -/

/-- before: directives were applied after merging — the first occurrence's verdict decided, and
sub-selections of excluded occurrences were merged in -/
def collectOld (applies : Nat → Nat → Bool) (t : Nat) : Nat → RSet → List RSel
  | 0, _ => []
  | f + 1, s =>
    s.sels ++ (s.frags.filter fun fr => fr.incl && applies fr.on t).flatMap fun fr => collectOld applies t f fr.set

/-- before: of a later occurrence only the first sub-selection per response key was kept -/
def dedupAlias : List RSel → List RSel
  | [] => []
  | s :: r => s :: (dedupAlias r).filter (·.alias != s.alias)

def mergedSubOld : List RSel → RSet
  | [] => .mk [] []
  | s :: r => .mk (s.sub.sels ++ r.flatMap fun x => dedupAlias x.sub.sels) ((s :: r).flatMap fun x => x.sub.frags)

def headIncl : List RSel → Bool
  | x :: _ => x.incl
  | [] => false

def mkSelOld (child : Nat → Nat → Option Nat) (norm : Nat → RSet → List Q) (t a : Nat) (g : List RSel) : Q :=
  match child t (nameOf g) with
  | none => Q.sel a (nameOf g) []
  | some ct => Q.sel a (nameOf g) (norm ct (mergedSubOld g))

def normalizeOld (applies : Nat → Nat → Bool) (child : Nat → Nat → Option Nat) : Nat → Nat → RSet → List Q
  | 0, _, _ => []
  | f + 1, t, s =>
    let c := collectOld applies t (f + 1) s
    ((sortedAliases c).filter fun a => headIncl (groupOf a c)).map fun a =>
      mkSelOld child (normalizeOld applies child f) t a (groupOf a c)

end TM.Fed.Gateway
