/-!
# The federation gateway on normalized queries (`federation/planner.go`, `federation/executor.go`)

Data is a store: an object is its type and federated key, the value of a field is a function of
that pair (what `FetchObjectFromKeys` rebuilds on the receiving service).  A normalized query
(`flatten`'s output for object types: no fragments, one selection per alias) is a rose tree.

* `evalSels` — the combined server (monolith);
* `planSels` / `planBody` — `planObject`: selections served by the current service stay local
  (their children planned recursively, the children's sub-plans lifted with the alias prepended
  to their path), the others are grouped per chosen service into sub-plans on the same object,
  and a `_federation` key selection is added when there are any;
* `exec` — `Executor.execute`: run the plan's selections on its service for all keys at once,
  then for every sub-plan extract the keys along its path (in traversal order), execute it and
  stitch result `i` into target `i`;
* `fusedSels` — the same computation written object by object (what stitching should amount to).

Name `0` is `_federation`, name `1` is `__typename`.
-/
namespace TM.Fed.Gateway

abbrev FED : Nat := 0
abbrev TYPENAME : Nat := 1

structure Ref where
  t : Nat
  k : Int
  deriving DecidableEq, Repr

/-- the value of a field of an object -/
inductive FV where
  | null
  | sc (v : Int)
  | ref (r : Ref)
  | refs (rs : List (Option Ref))   -- a list of objects, `none`: a null element
  deriving Repr

abbrev Store := Ref → Nat → FV

inductive Q where
  | sel (alias name : Nat) (kids : List Q)
  deriving Repr

def Q.alias : Q → Nat | .sel a _ _ => a
def Q.name : Q → Nat | .sel _ n _ => n
def Q.kids : Q → List Q | .sel _ _ k => k

/-- results (JSON) -/
inductive R where
  | null
  | sc (v : Int)
  | arr (xs : List R)
  | obj (fs : List (Nat × R))
  deriving Repr, Inhabited

/-- applies an object-level evaluation to the value of a field -/
def onValue (v : FV) (f : Ref → List (Nat × R)) : R :=
  match v with
  | .null => .null
  | .sc x => .sc x
  | .ref r => .obj (f r)
  | .refs rs => .arr (rs.map fun o => match o with | none => .null | some r => .obj (f r))

/-! ## the combined server -/

mutual
def evalSels (st : Store) : List Q → Ref → List (Nat × R)
  | [], _ => []
  | q :: qs, r => evalSel st q r :: evalSels st qs r
def evalSel (st : Store) : Q → Ref → Nat × R
  | .sel a n kids, r =>
    if n = TYPENAME then (a, .sc r.t)
    else (a, onValue (st r n) fun r' => evalSels st kids r')
end

/-! ## a service executing a sub-query: the same evaluation, plus `_federation` (the object's key) -/

mutual
def svcSels (st : Store) : List Q → Ref → List (Nat × R)
  | [], _ => []
  | q :: qs, r => svcSel st q r :: svcSels st qs r
def svcSel (st : Store) : Q → Ref → Nat × R
  | .sel a n kids, r =>
    if n = FED then (a, .sc r.k)
    else if n = TYPENAME then (a, .sc r.t)
    else (a, onValue (st r n) fun r' => svcSels st kids r')
end

/-! ## planning -/

/-- what the planner knows: who can serve a field, which service to pick, the object type a field leads to -/
structure Sch where
  owners : Nat → Nat → List Nat          -- type, field: services exposing it
  custom : Nat → Nat → Option Nat        -- `ServiceSelector`
  pick : Nat → Q → Nat                   -- the service `selectService` falls on when the current one cannot serve the field (Go map order: may differ per selection)
  child : Nat → Nat → Option Nat         -- type, field: object type of the field's values (none: scalar)

/-- `selectService` -/
def Sch.choose (σ : Sch) (t cur : Nat) (q : Q) : Nat :=
  if q.name = TYPENAME then cur
  else match σ.custom t q.name with
    | some c => c
    | none => if (σ.owners t q.name).contains cur then cur else σ.pick t q

inductive Plan where
  | mk (path : List Nat) (svc typ : Nat) (sel : List Q) (after : List Plan)
  deriving Repr

def Plan.path : Plan → List Nat | .mk p _ _ _ _ => p
def Plan.svc : Plan → Nat | .mk _ s _ _ _ => s
def Plan.typ : Plan → Nat | .mk _ _ t _ _ => t
def Plan.sel : Plan → List Q | .mk _ _ _ s _ => s
def Plan.after : Plan → List Plan | .mk _ _ _ _ a => a

/-- a child's sub-plan seen from the parent: the alias of the child is prepended to its path -/
def Plan.push (a : Nat) : Plan → Plan
  | .mk p s t sel after => .mk (a :: p) s t sel after

/-- services other than `svc` chosen for some selection, each once, in increasing order (`sort.Strings(otherServices)`) -/
def insertSorted (x : Nat) : List Nat → List Nat
  | [] => [x]
  | y :: ys => if x < y then x :: y :: ys else if x = y then y :: ys else y :: insertSorted x ys

def others (σ : Sch) (svc t : Nat) : List Q → List Nat
  | [] => []
  | q :: qs => let c := σ.choose t svc q
    if c = svc then others σ svc t qs else insertSorted c (others σ svc t qs)

def fedSel : Q := .sel FED FED [.sel 2 2 []]   -- `_federation { id }` (name 2: the key field)

/-- the plan for an object: local selections (+ key selection), lifted sub-plans of the children, then one
sub-plan per other service; `ps want` are the selections chosen for service `want`, planned as `want`'s own -/
def assemble (svc t : Nat) (os : List Nat) (ps : Nat → List Q × List Plan) : List Q × List Plan :=
  let (ls, la) := ps svc
  (ls ++ (if os.isEmpty then [] else [fedSel]),
   la ++ os.map fun o => let (s, a) := ps o; Plan.mk [] o t s a)

mutual
/-- the selections of the list that `cur` hands to service `want`, planned as selections local to `want` -/
def planSels (σ : Sch) (cur t want : Nat) : List Q → List Q × List Plan
  | [] => ([], [])
  | q :: qs =>
    let rest := planSels σ cur t want qs
    if σ.choose t cur q = want then
      let one := planSel σ want t q
      (one.1 :: rest.1, one.2 ++ rest.2)
    else rest
def planSel (σ : Sch) (svc t : Nat) : Q → Q × List Plan
  | .sel a n kids =>
    match σ.child t n with
    | none => (.sel a n [], [])
    | some ct =>
      let body := assemble svc ct (others σ svc ct kids) fun want => planSels σ svc ct want kids
      (.sel a n body.1, body.2.map (Plan.push a))
end

/-- `planObject` -/
def planBody (σ : Sch) (svc t : Nat) (qs : List Q) : List Q × List Plan :=
  assemble svc t (others σ svc t qs) fun want => planSels σ svc t want qs

/-! ## execution -/

def lookup (a : Nat) : List (Nat × R) → Option R
  | [] => none
  | (k, v) :: r => if a = k then some v else lookup a r

mutual
/-- `extractKeys`: the keys of the objects at the end of `path`, in traversal order (null objects have none) -/
def extract : R → List Nat → List Int
  | .null, _ => []
  | .sc _, _ => []
  | .arr xs, p => extractL xs p
  | .obj fs, [] => match lookup FED fs with | some (.sc k) => [k] | _ => []
  | .obj fs, a :: p => extractF fs a p
def extractL : List R → List Nat → List Int
  | [], _ => []
  | x :: xs, p => extract x p ++ extractL xs p
def extractF : List (Nat × R) → Nat → List Nat → List Int
  | [], _, _ => []
  | (k, v) :: r, a, p => if a = k then extract v p else extractF r a p
end

def fieldsOf : R → List (Nat × R)
  | .obj fs => fs
  | _ => []

mutual
/-- stitching: walks the targets in the same order and merges the next result into each; returns what is left -/
def stitch : R → List Nat → List R → R × List R
  | .null, _, rs => (.null, rs)
  | .sc v, _, rs => (.sc v, rs)
  | .arr xs, p, rs => let (ys, rest) := stitchL xs p rs; (.arr ys, rest)
  | .obj fs, [], rs =>
    match lookup FED fs with
    | some (.sc _) => (match rs with
      | [] => (.obj fs, [])
      | r :: rest => (.obj (fs ++ fieldsOf r), rest))
    | _ => (.obj fs, rs)
  | .obj fs, a :: p, rs => let (gs, rest) := stitchF fs a p rs; (.obj gs, rest)
def stitchL : List R → List Nat → List R → List R × List R
  | [], _, rs => ([], rs)
  | x :: xs, p, rs =>
    let (y, r1) := stitch x p rs
    let (ys, r2) := stitchL xs p r1
    (y :: ys, r2)
def stitchF : List (Nat × R) → Nat → List Nat → List R → List (Nat × R) × List R
  | [], _, _, rs => ([], rs)
  | (k, v) :: r, a, p, rs =>
    if a = k then let (v', rest) := stitch v p rs; ((k, v') :: r, rest)
    else let (r', rest) := stitchF r a p rs; ((k, v) :: r', rest)
end

mutual
/-- `execute` for a sub-plan: one result object per key -/
def exec (st : Store) : Plan → List Int → List R
  | .mk _ _ t sel after, keys =>
    execAfter st after (keys.map fun k => R.obj (svcSels st sel ⟨t, k⟩))
/-- the sub-plans one after the other, each on the results as the previous ones left them -/
def execAfter (st : Store) : List Plan → List R → List R
  | [], res => res
  | p :: ps, res =>
    let keys := extractL res p.path
    let sub := exec st p keys
    execAfter st ps (stitchL res p.path sub).1
end

mutual
/-- `deleteKey(res, "_federation")` -/
def dropFed : R → R
  | .null => .null
  | .sc v => .sc v
  | .arr xs => .arr (dropFedL xs)
  | .obj fs => .obj (dropFedF fs)
def dropFedL : List R → List R
  | [] => []
  | x :: xs => dropFed x :: dropFedL xs
def dropFedF : List (Nat × R) → List (Nat × R)
  | [] => []
  | (k, v) :: r => if k = FED then dropFedF r else (k, dropFed v) :: dropFedF r
end

/-- the gateway on an object: plan for `svc`, execute for this one object -/
def gateway (σ : Sch) (st : Store) (svc : Nat) (r : Ref) (qs : List Q) : R :=
  let body := planBody σ svc r.t qs
  match exec st (.mk [] svc r.t body.1 body.2) [r.k] with
  | [x] => dropFed x
  | _ => .null

/-! ## the same, object by object -/

mutual
/-- the fields service `want` contributes to object `r`, fully stitched -/
def fusedSels (σ : Sch) (st : Store) (cur want : Nat) : List Q → Ref → List (Nat × R)
  | [], _ => []
  | q :: qs, r =>
    if σ.choose r.t cur q = want then fusedSel σ st want q r :: fusedSels σ st cur want qs r
    else fusedSels σ st cur want qs r
def fusedSel (σ : Sch) (st : Store) (svc : Nat) : Q → Ref → Nat × R
  | .sel a n kids, r =>
    if n = TYPENAME then (a, .sc r.t)
    else (a, onValue (st r n) fun r' =>
      let os := others σ svc r'.t kids
      fusedSels σ st svc svc kids r' ++ (if os.isEmpty then [] else [(FED, R.sc r'.k)]) ++
        os.flatMap fun o => fusedSels σ st svc o kids r')
end

def fusedBody (σ : Sch) (st : Store) (svc : Nat) (qs : List Q) (r : Ref) : List (Nat × R) :=
  let os := others σ svc r.t qs
  fusedSels σ st svc svc qs r ++ (if os.isEmpty then [] else [(FED, R.sc r.k)]) ++
    os.flatMap fun o => fusedSels σ st svc o qs r

end TM.Fed.Gateway
