/-!
# Run-length compression of reorder indices

`compress` mirrors `diff.compressReorderIndices`; `uncompress` mirrors
`merge.uncompressIndices` and the loop of `merge.ts` (a pair is `[start, count]`).
-/
namespace TM.Rle

inductive Item where
  | one (x : Int)                 -- a single index, or -1
  | run (start : Int) (count : Nat)
deriving Repr, DecidableEq

/-- how many leading elements of `xs` continue the run `e, e+1, …` (a `-1` never does: see `compress`) -/
def runLength : List Int → Int → Nat
  | [], _ => 0
  | y :: ys, e => if y = e then runLength ys (e + 1) + 1 else 0

theorem runLength_le (xs : List Int) (e : Int) : runLength xs e ≤ xs.length := by
  induction xs generalizing e with
  | nil => simp [runLength]
  | cons y ys ih =>
    simp only [runLength]
    split
    · have := ih (e + 1); simp; omega
    · simp

def compress : List Int → List Item
  | [] => []
  | x :: xs =>
      if x = -1 then .one (-1) :: compress xs
      else
        let n := runLength xs (x + 1)
        if n = 0 then .one x :: compress xs
        else .run x (n + 1) :: compress (xs.drop n)
termination_by l => l.length
decreasing_by
  all_goals simp
  omega

def expand (s : Int) : Nat → List Int
  | 0 => []
  | c + 1 => s :: expand (s + 1) c

def uncompress : List Item → List Int
  | [] => []
  | .one x :: r => x :: uncompress r
  | .run s c :: r => expand s c ++ uncompress r

end TM.Rle
