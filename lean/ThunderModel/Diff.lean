import ThunderModel.Json
import ThunderModel.Rle
/-!
# `diff.Diff` (package `diff`, file `diff/diff.go`)

A faithful functional transcription.  Go recursion `Diff → diffMap/diffArray → Diff` is
unrolled with a fuel argument (`fuel > depth old` suffices; `diffTop` supplies it).
Go maps are key-sorted association lists, so the two `for k := range …` loops of
`diffMap` become one merge-join (`diffKvs`).
-/
namespace TM
namespace J

/-- `markReplaced`: scalars pass through raw, everything else is key-stripped and wrapped. -/
def markReplaced : J → J
  | .sc n => .sc n
  | x => .arr [strip x]

/-- `markRemoved` -/
def removed : J := .arr []

/-- `m["__key"]` (`none` = absent). -/
def keyOf : List (Nat × J) → Option J
  | (0, v) :: _ => some v
  | _ => none

/-- the `__key` comparison of `diffMap`: both absent, or both present and equal as Go interface
values (scalars and `nil`; `WF` excludes non-comparable keys, on which Go panics) -/
def keyEq : Option J → Option J → Bool
  | none, none => true
  | some (.sc a), some (.sc b) => a == b
  | some .null, some .null => true
  | _, _ => false

def diffKvs (d : J → J → Option J) : List (Nat × J) → List (Nat × J) → List (Nat × J)
  | [], [] => []
  | (k, _) :: os, [] => (k, removed) :: diffKvs d os []
  | [], (k, v) :: ns => (k, markReplaced v) :: diffKvs d [] ns
  | (ko, vo) :: os, (kn, vn) :: ns =>
      if ko < kn then (ko, removed) :: diffKvs d os ((kn, vn) :: ns)
      else if kn < ko then (kn, markReplaced vn) :: diffKvs d ((ko, vo) :: os) ns
      else match d vo vn with
        | none => diffKvs d os ns
        | some x => (ko, x) :: diffKvs d os ns
termination_by os ns => os.length + ns.length

/-! ## Arrays -/

/-- `reorderKey`: `__key` of an object that has one, the value itself if comparable
(scalars), `nil` otherwise (`nil`, `[]byte`, arrays, key-less objects). -/
def reorderKey : J → J
  | .obj kvs =>
      match keyOf kvs with
      | some (.sc n) => .sc n
      | _ => .null          -- no key, a nil key, or a key that is a list or an object: identifies nothing
  | .sc n => .sc n
  | _ => .null

/-- Go map-key equality on reorder keys (scalars and nil only, by `WF`). -/
def rkeyEq : J → J → Bool
  | .sc a, .sc b => a == b
  | .null, .null => true
  | _, _ => false

/-- first position `j ≥ pos` of `os` that is not in `used` and whose reorder key equals `k` -/
def findUnused (k : J) (used : List Nat) : List J → Nat → Option Nat
  | [], _ => none
  | o :: os, pos =>
      if !used.contains pos && rkeyEq (reorderKey o) k then some pos
      else findUnused k used os (pos + 1)

/-- `computeReorderIndices`: for each new item the first not yet taken old position with an
equal reorder key, else `-1`.  (The Go code keeps a queue of positions per key; taking
the head of the queue is taking the first unused position.) -/
def reorderFrom (os : List J) : List J → List Nat → List Int
  | [], _ => []
  | n :: ns, used =>
      match findUnused (reorderKey n) used os 0 with
      | some j => (j : Int) :: reorderFrom os ns (j :: used)
      | none => (-1) :: reorderFrom os ns used

def reorder (os ns : List J) : List Int := reorderFrom os ns []

/-- `old[j]`, or `nil` for `j = -1` -/
def pickOld (os : List J) (i : Int) : J :=
  if 0 ≤ i then os.getD i.toNat .null else .null

def encItem : Rle.Item → J
  | .one x => .sc x
  | .run s c => .arr [.sc s, .sc c]

def encIdx (l : List Int) : J := .arr ((Rle.compress l).map encItem)

/-- element-wise deltas between the matched old elements `bs` and the new elements; delta key
`pos+1` is the decimal position `pos` -/
def diffElems (d : J → J → Option J) : List J → List J → Nat → List (Nat × J)
  | b :: bs, n :: ns, pos =>
      match d b n with
      | none => diffElems d bs ns (pos + 1)
      | some x => (pos + 1, x) :: diffElems d bs ns (pos + 1)
  | _, _, _ => []

/-- `orderChanged` negated -/
def identityIdx (idx : List Int) (oldLen : Nat) : Bool :=
  idx == (List.range oldLen).map Int.ofNat

def diffArr (d : J → J → Option J) (asg : List J → List J → List Int) (os ns : List J) : Option J :=
  let idx := asg os ns
  let elems := diffElems d (idx.map (pickOld os)) ns 0
  let all := if identityIdx idx os.length then elems else (0, encIdx idx) :: elems
  if all.isEmpty then none else some (.obj all)

/-- `Diff`, parameterised by the index assignment (`reorder` for the real code). -/
def diffA (asg : List J → List J → List Int) : Nat → J → J → Option J
  | 0, _, _ => none
  | f+1, .obj okvs, .obj nkvs =>
      if !keyEq (keyOf okvs) (keyOf nkvs) then some (markReplaced (.obj nkvs))
      else
        let d := diffKvs (diffA asg f) okvs nkvs
        if d.isEmpty then none else some (.obj d)
  | f+1, .arr os, .arr ns => diffArr (diffA asg f) asg os ns
  | _+1, .sc a, .sc b => if a = b then none else some (.sc b)
  | _+1, .by a, .by b => if a = b then none else some (markReplaced (.by b))
  | _+1, .null, .null => none
  | _+1, _, new => some (markReplaced new)

/-- `diff.Diff old new` -/
def diffTop (old new : J) : Option J := diffA reorder (depth old + 1) old new

end J
end TM
