import ThunderModel.Diff
import ThunderModel.Merge
/-! A live subscription (`graphql/server.go` `handleSubscribe`): after every successful run the
server sends the delta against the value it sent before (the first run always sends something);
the client starts from nothing and merges every update of its id, in order. -/
namespace TM.Sub
open TM TM.J

/-- what the server writes after a successful run with result `r` (`none`: nothing) -/
def message (f : Nat) (prev : J) (initial : Bool) (r : J) : Option J :=
  match diffA reorder f prev r with
  | some d => some d
  | none => if initial then some (.obj []) else none   -- "an empty diff for any message"

/-- the server's `previous` and the client's state after a sequence of successful runs -/
def session (f : Nat) : J → J → Bool → List J → Except String (J × J)
  | prev, st, _, [] => .ok (prev, st)
  | prev, st, ini, r :: rs => do
      let st' ← applyA f st (message f prev ini r)
      session f r st' false rs

/-- the messages of a session, in order -/
def messages (f : Nat) : J → Bool → List J → List (Option J)
  | _, _, [] => []
  | prev, ini, r :: rs => message f prev ini r :: messages f r false rs

/-- a client holding several subscriptions: every envelope carries the id it belongs to -/
def clientAll (f : Nat) : (Nat → J) → List (Nat × Option J) → Except String (Nat → J)
  | st, [] => .ok st
  | st, (i, m) :: rest => do
      let v ← applyA f (st i) m
      clientAll f (fun j => if j = i then v else st j) rest

def lastOr (d : J) : List J → J
  | [] => d
  | r :: rs => lastOr r rs

end TM.Sub
