import ThunderModel.Diff
/-!
# `merge.Merge` (Go, `merge/merge.go`) and `merge` (TypeScript, `client/src/merge.ts`)
-/
namespace TM
namespace J

def mergeReplaced : J → Except String J
  | .sc n => .ok (.sc n)
  | .arr (x :: _) => .ok x
  | _ => .error "mergeReplaced"

def isRemoved : J → Bool
  | .arr [] => true
  | _ => false

def mergeKvs (m : J → J → Except String J) :
    List (Nat × J) → List (Nat × J) → Except String (List (Nat × J))
  | [], [] => .ok []
  | (k, v) :: ps, [] => (mergeKvs m ps []).map ((k, v) :: ·)
  | [], (k, d) :: ds => do
      let v ← mergeReplaced d
      let r ← mergeKvs m [] ds
      .ok ((k, v) :: r)
  | (kp, vp) :: ps, (kd, d) :: ds =>
      if kp < kd then (mergeKvs m ps ((kd, d) :: ds)).map ((kp, vp) :: ·)
      else if kd < kp then do
        let v ← mergeReplaced d
        let r ← mergeKvs m ((kp, vp) :: ps) ds
        .ok ((kd, v) :: r)
      else if isRemoved d then mergeKvs m ps ds
      else do
        let v ← m vp d
        let r ← mergeKvs m ps ds
        .ok ((kp, v) :: r)
termination_by ps ds => ps.length + ds.length

def decItem : J → Except String Rle.Item
  | .sc x => .ok (.one x)
  | .arr [.sc s, .sc c] => if 0 ≤ c then .ok (.run s c.toNat) else .ok (.run s 0)
  | _ => .error "index item"

def decItems : List J → Except String (List Rle.Item)
  | [] => .ok []
  | x :: xs => do
      let i ← decItem x
      let r ← decItems xs
      .ok (i :: r)

/-- `uncompressIndices` -/
def decIdx : J → Except String (List Int)
  | .arr xs => (decItems xs).map Rle.uncompress
  | _ => .error "indices"

def applyElems (m : J → J → Except String J) : List J → List (Nat × J) → Except String (List J)
  | base, [] => .ok base
  | base, (k, d) :: rest =>
      if k = 0 then .error "misplaced $"
      else if h : k - 1 < base.length then do
        let v ← m base[k - 1] d
        applyElems m (base.set (k - 1) v) rest
      else .error "index out of range"

/-- `mergeArray` -/
def mergeArr (m : J → J → Except String J) (ps : List J) : List (Nat × J) → Except String J
  | (0, enc) :: rest => do
      let idx ← decIdx enc
      let r ← applyElems m (idx.map (pickOld ps)) rest
      .ok (.arr r)
  | rest => (applyElems m ps rest).map .arr

/-- `merge.Merge prev delta`, parameterised by the answer to "non-container previous value,
object delta" (`bad`): the Go code returns `nil, nil` there (`mergeA`); `Diff` never produces such
a pair, which is why the round-trip theorem holds for every `bad` (see `mergeJs_refines`). -/
def mergeG (bad : Except String J) : Nat → J → J → Except String J
  | 0, _, _ => .error "fuel"
  | f+1, .obj pkvs, .obj dkvs => (mergeKvs (mergeG bad f) pkvs dkvs).map .obj
  | f+1, .arr ps, .obj dkvs => mergeArr (mergeG bad f) ps dkvs
  | _+1, _, .obj _ => bad
  | _+1, _, d => mergeReplaced d

/-- `merge.Merge` as written: `Merge(scalar, map) = nil, nil`. -/
abbrev mergeA : Nat → J → J → Except String J := mergeG (.ok .null)

/-- apply an optional delta (`nil` delta = no message / keep) -/
def applyG (bad : Except String J) (f : Nat) (prev : J) : Option J → Except String J
  | none => .ok prev
  | some d => mergeG bad f prev d

abbrev applyA : Nat → J → Option J → Except String J := applyG (.ok .null)

def mergeTop (prev delta : J) : Except String J := mergeA (depth prev + depth delta + 2) prev delta

end J
end TM

