/-! Shared helpers for the models (core Lean only). -/
namespace TM
end TM
