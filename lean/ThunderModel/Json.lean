/-!
# JSON values as the diff/merge code sees them

`J` is the model of the Go values that `diff.Diff` / `merge.Merge` / `merge.ts` operate on:
`nil`, scalars (bool / number / string — an abstract `Int` token, the harness interns
`(Go type, value)` pairs; numbers that the code itself *computes with*, i.e. reorder
indices, are sent raw), `[]byte` (`.by`, compared by content, never passed through raw),
arrays and objects.  Objects are key-sorted duplicate-free association lists; key `0` is
`"__key"` in a data object and `"$"` in an array delta, key `k+1` is the k-th interned
field name, resp. the decimal array position `k` in an array delta.
-/
namespace TM

inductive J where
  | null : J
  | sc : Int → J
  | by : Int → J
  | arr : List J → J
  | obj : List (Nat × J) → J
deriving Repr, Inhabited

namespace J

mutual
/-- `diff.StripKey` -/
def strip : J → J
  | .null => .null
  | .sc s => .sc s
  | .by s => .by s
  | .arr xs => .arr (stripL xs)
  | .obj kvs => .obj (stripO kvs)
def stripL : List J → List J
  | [] => []
  | x :: xs => strip x :: stripL xs
def stripO : List (Nat × J) → List (Nat × J)
  | [] => []
  | (k, v) :: kvs => if k = 0 then stripO kvs else (k, strip v) :: stripO kvs
end

mutual
def depth : J → Nat
  | .null => 0
  | .sc _ => 0
  | .by _ => 0
  | .arr xs => depthL xs + 1
  | .obj kvs => depthO kvs + 1
def depthL : List J → Nat
  | [] => 0
  | x :: xs => max (depth x) (depthL xs)
def depthO : List (Nat × J) → Nat
  | [] => 0
  | (_, v) :: kvs => max (depth v) (depthO kvs)
end

mutual
/-- structural equality (Go `reflect.DeepEqual` on the canonical form); used by the driver -/
def beq : J → J → Bool
  | .null, .null => true
  | .sc a, .sc b => a == b
  | .by a, .by b => a == b
  | .arr xs, .arr ys => beqL xs ys
  | .obj xs, .obj ys => beqO xs ys
  | _, _ => false
def beqL : List J → List J → Bool
  | [], [] => true
  | x :: xs, y :: ys => beq x y && beqL xs ys
  | _, _ => false
def beqO : List (Nat × J) → List (Nat × J) → Bool
  | [], [] => true
  | (k, x) :: xs, (l, y) :: ys => k == l && beq x y && beqO xs ys
  | _, _ => false
end

end J
end TM
