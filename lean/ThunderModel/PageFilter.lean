/-!
# The default text filter of a paginated field (`internal/filter/filter.go`)

`GetDefaultSearchTokens` cuts the filter text into tokens with the regular expression
`(?:([^\s"]+)|"([^"]*)"?)`: a maximal run of characters that are neither white space nor a double
quote is a word; a double quote opens a phrase that runs to the next double quote or to the end of
the text. `DefaultFilterFunc`: no token at all, everything passes; otherwise a text passes when
some non-empty token occurs in it, letter case ignored.

The model is the scanner that regular expression describes, one character at a time.
-/
namespace TM.Page

inductive TokSt where
  | idle
  | word (acc : List Char)
  | phrase (acc : List Char)
deriving Repr, DecidableEq

/-- `\s` of Go's regexp: tab, newline, form feed, carriage return, space -/
def isSp (c : Char) : Bool := c == ' ' || c == '\t' || c == '\n' || c == '\x0c' || c == '\r'
def isQ (c : Char) : Bool := c == '"'

/-- one character: the new state and the tokens completed by it -/
def tokStep : TokSt → Char → TokSt × List (List Char)
  | .idle, c => if isQ c then (.phrase [], []) else if isSp c then (.idle, []) else (.word [c], [])
  | .word acc, c =>
      if isQ c then (.phrase [], [acc]) else if isSp c then (.idle, [acc]) else (.word (acc ++ [c]), [])
  | .phrase acc, c => if isQ c then (.idle, [acc]) else (.phrase (acc ++ [c]), [])

/-- end of the text: a word or an unclosed phrase in progress is a token -/
def tokFlush : TokSt → List (List Char)
  | .idle => []
  | .word acc => [acc]
  | .phrase acc => [acc]

def tokRun : TokSt → List Char → List (List Char)
  | st, [] => tokFlush st
  | st, c :: cs => (tokStep st c).2 ++ tokRun (tokStep st c).1 cs

/-- `GetDefaultSearchTokens` -/
def tokens (s : List Char) : List (List Char) := if s.isEmpty then [] else tokRun .idle s

def lowerAscii (c : Char) : Char := c.toLower

def isInfixB (t : List Char) : List Char → Bool
  | [] => t.isEmpty
  | c :: cs => t.isPrefixOf (c :: cs) || isInfixB t cs

/-- `DefaultFilterFunc` -/
def passes (text : List Char) (toks : List (List Char)) : Bool :=
  toks.isEmpty || toks.any (fun t => !t.isEmpty && isInfixB (t.map lowerAscii) (text.map lowerAscii))

end TM.Page
