/-! Cost of traversing a selection DAG (fragments shared between spreads), with and without
memoisation: the shape of `detectConflicts`, `detectMergeConflicts` and `prepareQuery`. -/
namespace TM.Cost

/-- a finite directed graph: node `i` has the children `g[i]` -/
abbrev Graph := List (List Nat)

def children (g : Graph) (x : Nat) : List Nat := g.getD x []

/-- memoised traversal (explicit stack): a node already expanded is skipped; returns the
expanded nodes, most recent first -/
def memo (g : Graph) : Nat → List Nat → List Nat → List Nat
  | 0, _, vis => vis
  | _+1, [], vis => vis
  | f+1, x :: st, vis =>
      if vis.contains x then memo g f st vis
      else memo g f (children g x ++ st) (x :: vis)

/-- number of expansions of the memoised traversal from `root` -/
def memoCost (g : Graph) (fuel : Nat) (root : Nat) : Nat := (memo g fuel [root] []).length

/-- number of expansions without memoisation -/
def naive (g : Graph) : Nat → Nat → Nat
  | 0, _ => 0
  | f+1, x => 1 + ((children g x).map (naive g f)).sum

/-- every edge points to a node of the graph -/
def WF (g : Graph) : Prop := ∀ l ∈ g, ∀ c ∈ l, c < g.length

/-- the fragment bomb: `n` fragments each spreading the next one twice, and a last one -/
def bomb (n : Nat) : Graph := (List.range n).map (fun i => [i+1, i+1]) ++ [[]]

end TM.Cost
