import ThunderModel.Sql.BatchQuery
/-! Live SQL (`livesql/live.go`, `livesql/binlog.go`): live queries register a dependency
(table, filter) with the tracker and then read; every committed write appends an event to the
change log; the poll loop delivers events one at a time, testing the before/after image of every
changed row against every registered filter (`Tester`) and invalidating the queries hit. An event
that cannot be decoded invalidates every registered query on its table (after the repair; before
it, the event was dropped). -/
namespace TM.Sql.Live
open TM.Sql.Limit (KVs)
open TM.Sql.Batch (Row sat alone)

/-- one row change of a write statement -/
inductive Change
  | ins (r : Row)             -- a new row (appended)
  | del (i : Nat)             -- the row at position `i` goes away
  | upd (i : Nat) (r : Row)   -- the row at position `i` becomes `r`
  deriving Repr

/-- before / after image of one changed row, as the change log carries it -/
structure Delta where
  before : Option Row
  after : Option Row
  deriving Repr

def applyChange (t : List Row) : Change → List Row × List Delta
  | .ins r => (t ++ [r], [⟨none, some r⟩])
  | .del i =>
    match t[i]? with
    | some b => (t.eraseIdx i, [⟨some b, none⟩])
    | none => (t, [])
  | .upd i r =>
    match t[i]? with
    | some b => (t.set i r, [⟨some b, some r⟩])
    | none => (t, [])

/-- a write statement: its row changes one after the other; the table afterwards and the images -/
def applyChanges (t : List Row) : List Change → List Row × List Delta
  | [] => (t, [])
  | c :: cs =>
    let (t1, d1) := applyChange t c
    let (t2, d2) := applyChanges t1 cs
    (t2, d1 ++ d2)

/-- an event of the change log: `bad` — the poll loop cannot decode it (column count or type
mismatch after a schema change) -/
structure Ev where
  tbl : Nat
  deltas : List Delta
  bad : Bool
  deriving Repr

/-- a live query (one cached computation of `LiveDB.query`, or an explicit `AddDependency`) -/
structure LQ where
  tbl : Nat
  filter : KVs
  registered : Bool := false         -- the tracker holds the resource of its current run
  rows : Option (List Row) := none   -- what its current run read
  invalid : Bool := false            -- the resource of its current run was invalidated: a rerun is due
  deriving Repr

structure St where
  tables : List (List Row)
  queue : List Ev := []              -- committed, not yet processed by the tracker
  qs : List LQ
  deriving Repr

structure Cfg where
  dropBad : Bool := false     -- the code before the repair: an undecodable event is logged and dropped
  readFirst : Bool := false   -- a (wrong) design that reads before it registers

def repaired : Cfg := {}
def old : Cfg := { dropBad := true }

def testDelta (f : KVs) (d : Delta) : Bool :=
  (match d.before with | some r => sat f r | none => false) ||
  (match d.after with | some r => sat f r | none => false)

/-- `dbResource.shouldInvalidate` -/
def hits (cfg : Cfg) (q : LQ) (e : Ev) : Bool :=
  q.tbl == e.tbl && (if e.bad then !cfg.dropBad else e.deltas.any (testDelta q.filter))

inductive Label
  | write (t : Nat) (cs : List Change) (bad : Bool)
  | register (q : Nat)
  | read (q : Nat)
  | deliver
  deriving Repr

def tableOf (s : St) (t : Nat) : List Row := s.tables.getD t []

def deliverTo (cfg : Cfg) (e : Ev) (q : LQ) : LQ :=
  if q.registered && hits cfg q e then { q with invalid := true } else q

def step (cfg : Cfg) (s : St) : Label → Option St
  | .write t cs bad =>
    if t < s.tables.length then
      let (t', ds) := applyChanges (tableOf s t) cs
      some { s with tables := s.tables.set t t', queue := s.queue ++ [⟨t, ds, bad⟩] }
    else none
  | .register q =>
    match s.qs[q]? with
    | some x => some { s with qs := s.qs.set q { x with registered := true, invalid := false,
                                                          rows := if cfg.readFirst then x.rows else none } }
    | none => none
  | .read q =>
    match s.qs[q]? with
    | some x =>
      if x.registered || cfg.readFirst then
        some { s with qs := s.qs.set q { x with rows := some (alone x.filter (tableOf s x.tbl)) } }
      else none   -- the code registers before it reads
    | none => none
  | .deliver =>
    match s.queue with
    | [] => none
    | e :: rest => some { s with queue := rest, qs := s.qs.map (deliverTo cfg e) }

def run (cfg : Cfg) (s : St) : List Label → Option St
  | [] => some s
  | l :: ls => match step cfg s l with
    | some s' => run cfg s' ls
    | none => none

/-- writes have stopped and everything has been processed: no event pending, every live query
registered, read, and not invalidated -/
def quiescent (s : St) : Bool :=
  s.queue.isEmpty && s.qs.all fun q => q.registered && q.rows.isSome && !q.invalid

/-- every live query holds exactly what the database returns for its filter now -/
def fresh (s : St) : Prop :=
  ∀ q ∈ s.qs, ∀ r, q.rows = some r → r = alone q.filter (tableOf s q.tbl)

end TM.Sql.Live
