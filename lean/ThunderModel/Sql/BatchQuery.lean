import ThunderModel.Sql.Limit
/-! Batched fetches of `sqlgen.DB` (`sqlgen/db.go` batchFetch, `sqlgen/batch.go`): concurrent
queries on one table are combined into one SELECT whose rows are then handed back to the queries
they belong to. -/
namespace TM.Sql.Batch
open TM.Sql.Limit (GV IV KVs get)

/-- a column value in the database: NULL or a value -/
abbrev DV := Option Int
abbrev Row := List (Nat × DV)

def Row.col (r : Row) (k : Nat) : DV := ((r.find? (·.1 = k)).map (·.2)).getD none

/-- the column `Valuer`: whatever Go type carries it (int, int64, a pointer, a named type), a
filter value denotes one column value; nil denotes NULL -/
def valuer : IV → DV
  | none => none
  | some g => some g.v

/-- one condition of the WHERE clause of a single query (`makeWhere`): `col = ?`, or `col IS ?`
for nil — in SQL, `= NULL` is never true -/
def satCol (r : Row) (k : Nat) (v : IV) : Bool :=
  match valuer v with
  | none => r.col k == none
  | some x => r.col k == some x

def sat (f : KVs) (r : Row) : Bool := f.all fun (k, v) => satCol r k v

/-- what a query returns on its own -/
def alone (f : KVs) (table : List Row) : List Row := table.filter (sat f)

/-- the batched statement after the repair: all rows if some filter is empty, else the rows
matching some filter (nil values as `IS NULL`, values through the column `Valuer`) -/
def fetched (fs : List KVs) (table : List Row) : List Row := table.filter fun r => fs.any fun f => sat f r

/-- dispatch after the repair: a fetched row goes to every query whose filter it satisfies
(`Tester`, the comparison livesql uses) -/
def dispatched (fs : List KVs) (table : List Row) (f : KVs) : List Row := (fetched fs table).filter (sat f)

/-! ### the code before the repair -/

/-- `col IN (?)` / `col=?` with the raw value: a nil argument is `= NULL`, which matches nothing -/
def satColOld (r : Row) (k : Nat) (v : IV) : Bool :=
  match v with
  | none => false
  | some g => r.col k == some g.v

def fetchedOld (fs : List KVs) (table : List Row) : List Row :=
  if fs.any (·.isEmpty) then table else table.filter fun r => fs.any fun f => f.all fun (k, v) => satColOld r k v

/-- the matcher compared `coerce`d Go values with `==`: same dynamic type required. `colTy` is the
Go type of the struct field (after one dereference). -/
def matchOld (colTy : Nat → Nat) (f : KVs) (r : Row) : Bool :=
  f.all fun (k, v) =>
    match v, r.col k with
    | none, none => true
    | some g, some x => g.ty == colTy k && g.v == x
    | _, _ => false

def dispatchedOld (colTy : Nat → Nat) (fs : List KVs) (table : List Row) (f : KVs) : List Row :=
  (fetchedOld fs table).filter (matchOld colTy f)

/-! ### the call (`DB.BaseQuery`): the filter is validated before the call may join a batch -/

/-- what a call returns: its rows, or its error -/
inductive Res
  | rows (rs : List Row)
  | err
  deriving Repr, DecidableEq

/-- a call on its own: `MakeSelectQuery` rejects a filter that names an unknown column or carries a value the
column's Valuer rejects (`valid`); otherwise the rows of the filter -/
def callAlone (valid : KVs → Bool) (table : List Row) (f : KVs) : Res :=
  if valid f then .rows (alone f table) else .err

/-- the same call made together with `calls` under batching: validated first; only valid calls join the batch -/
def callBatched (valid : KVs → Bool) (calls : List KVs) (table : List Row) (f : KVs) : Res :=
  if valid f then .rows (dispatched (calls.filter valid) table f) else .err

/-- a design that decides about batching before validating: one invalid member fails the whole batch -/
def callBatchedLate (valid : KVs → Bool) (calls : List KVs) (table : List Row) (f : KVs) : Res :=
  if calls.all valid then .rows (dispatched calls table f) else .err

end TM.Sql.Batch
