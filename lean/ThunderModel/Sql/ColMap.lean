/-! The poll loop's column-map cache (`livesql/binlog.go`: `RunPollLoop`, `getColumnMap`,
`tableVersions`, `columnMaps`), for one table.

A rows event carries its values in the column order the table had when the statement was written;
the poll loop decodes it with a map from the binlog's positions to the struct's fields that it
fetches from `information_schema` when it has none, and keeps. A `TableMapEvent` whose table id
differs from the one seen last announces a new version of the table: the kept map is dropped.

Schema versions are numbers here (two versions are two column orders / sets). The ghost fields
`v` say which version an event belongs to; `cur` is the version the database has when the poll
loop processes the event (what a fetch at that moment returns). -/
namespace TM.Sql.ColMap

inductive Ev
  | tmap (id v : Nat)     -- TableMapEvent with table id `id`, written while the table had version `v`
  | rows (v cur : Nat)    -- rows event written under version `v`, processed while the database has `cur`
  deriving Repr, DecidableEq

structure St where
  ver : Option Nat := none    -- tableVersions[table]
  cmap : Option Nat := none   -- columnMaps[table]: the version it was fetched at
  deriving Repr, DecidableEq

structure Cfg where
  flush : Bool := true        -- false: a table map event with a new id leaves the kept map alone

def repaired : Cfg := {}
def noFlush : Cfg := { flush := false }

inductive Out
  | none
  | decoded (fetched : Bool) (withV : Nat)   -- the map used, and whether it was fetched for this event
  deriving Repr, DecidableEq

def step (cfg : Cfg) (s : St) : Ev → St × Out
  | .tmap id _ =>
    if s.ver = some id then (s, .none)
    else ({ ver := some id, cmap := if cfg.flush then none else s.cmap }, .none)
  | .rows _ cur =>
    match s.cmap with
    | some c => (s, .decoded false c)
    | none => ({ s with cmap := some cur }, .decoded true cur)

def run (cfg : Cfg) : St → List Ev → List Out
  | _, [] => []
  | s, e :: es => (step cfg s e).2 :: run cfg (step cfg s e).1 es

/-- the event was decoded with the map of the version it was written under -/
def right : Ev → Out → Bool
  | .rows v _, .decoded _ c => c == v
  | .rows _ _, .none => false
  | .tmap _ _, _ => true

def allRight : List Ev → List Out → Bool
  | e :: es, o :: os => right e o && allRight es os
  | [], [] => true
  | _, _ => false

/-- what a decode with the map of version `c` does to an event written under `v`, given the number of
columns of each version: right, an error (the widths differ: the event is undecodable and invalidates
every live query of the table), or garbage (same width, other order) -/
inductive Decode | right | error | garbage
  deriving Repr, DecidableEq

def decode (width : Nat → Nat) (c v : Nat) : Decode :=
  if c = v then .right else if width c = width v then .garbage else .error

/-- The discipline of the change log and of the moment of a fetch, as a predicate on the log alone
(`lv`: the version the last table map event announced, `lid`: its id, `warm`: a map is kept):
* a rows event belongs to the version announced last;
* a table map event that repeats the id seen last announces the same version (the table id is
  unique per version of the table);
* when a map has to be fetched for a rows event, the database still has that event's version
  (a fetch that comes too late is the limitation `RunPollLoop`'s comment describes). -/
def wf : Nat → Option Nat → Bool → List Ev → Bool
  | _, _, _, [] => true
  | lv, lid, warm, .tmap id v :: r =>
    if lid = some id then v == lv && wf lv lid warm r else wf v (some id) false r
  | lv, lid, warm, .rows v cur :: r => v == lv && (warm || cur == v) && wf lv lid true r

end TM.Sql.ColMap
