import ThunderModel.Sql.Codec
/-!
# The row tester on an integer column, and the database's `=`

`sqlgen/reflect.go`: `tester.Test` decides, for a row fetched by a batched SELECT (and for a row of a
change-log event), whether it belongs to a query with filter `col = v`. The database decides the
same question for a query on its own. `v` may be written in any Go type: the database compares
numbers by value; the tester first compares driver values (`driverValuesEqual`: same kind, same
value) and otherwise converts the filter value to the column's Go type (`coerceToColumn`) and
compares what the column would hold for it.
-/
namespace TM.Sql.Tester
open TM.Codec

/-- how the filter value is written -/
inductive Spell
  | int (v : Int)         -- an integer of any Go type (int, int32, uint8, a named type, a pointer to one)
  | wholeFloat (v : Int)  -- a float64 holding a whole number (an id decoded from JSON)
  | fracFloat             -- a float64 with a fraction
  | bool (b : Bool)
deriving Repr, DecidableEq

def ofBool (b : Bool) : Int := if b then 1 else 0

/-- MySQL's `col = ?` on an integer column holding `x` -/
def dbMatch (x : Int) : Spell → Bool
  | .int v => x == v
  | .wholeFloat v => x == v
  | .fracFloat => false
  | .bool b => x == ofBool b

/-- the driver value of an integer column's value (`Valuer`): a uint64 above MaxInt64 is stored wrapped -/
def stored (k : IKind) (x : Int) : Int := if k.signed then x else wrap i64 x

/-- `driverValuesEqual (Valuer filter value) (Valuer row value)`: the kinds must be the same -/
def firstEq (k : IKind) (x : Int) : Spell → Bool
  | .int v => v == stored k x
  | _ => false

/-- the integer a filter value is taken for before it is scanned into the column's type; a float
with a fraction is handed to `convertAssign`, which does not parse it as an integer -/
def normalise : Spell → Option Int
  | .int v => some v
  | .wholeFloat v => some v
  | .bool b => some (ofBool b)
  | .fracFloat => none

/-- `coerceToColumn`: scan into the column's kind (Go's conversion wraps), take the driver value of
the result, and refuse a value that did not survive -/
def coerce (k : IKind) (s : Spell) : Option Int :=
  match normalise s with
  | none => none
  | some v => if stored k (wrap k v) = v then some (stored k (wrap k v)) else none

/-- the second comparison: what the column would hold for the filter value against what the row holds -/
def sameAs (rv : Int) : Option Int → Bool
  | some c => c == rv
  | none => false

def testerMatch (k : IKind) (x : Int) (s : Spell) : Bool :=
  firstEq k x s || sameAs (stored k x) (coerce k s)

/-- before the repair C10-4: no check that the value survives the conversion -/
def coerceNoCheck (k : IKind) (s : Spell) : Option Int := (normalise s).map (fun v => stored k (wrap k v))

def testerMatchNoCheck (k : IKind) (x : Int) (s : Spell) : Bool :=
  firstEq k x s || sameAs (stored k x) (coerceNoCheck k s)

/-- before the repair C10-5: floats and bools went to `convertAssign` as they were; a whole float
below 1e6 prints without an exponent and parses, a larger one does not; a bool is refused -/
def normaliseOld : Spell → Option Int
  | .int v => some v
  | .wholeFloat v => if v < 1000000 ∧ -1000000 < v then some v else none
  | .bool _ => none
  | .fracFloat => none

end TM.Sql.Tester
