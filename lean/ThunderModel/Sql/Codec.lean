/-!
# Row codec: `fields.Valuer.Value` / `fields.Scanner.Scan` (`internal/fields/sql.go`),
`UnbuildStruct` / `BuildStruct` (`sqlgen/reflect.go`), `parseBinlogRow` (`livesql/binlog.go`),
the row tester and the filter ⇄ protobuf conversion (`livesql/marshal.go`)

Go values are modelled by kind.  Integers carry their Go kind (width, signedness) and are
unbounded `Int`s constrained by `inRange`; Go's conversions are explicit wraps.  Floats,
strings, byte slices, times and encoded (`binary`/`string`/`json`-tagged) values are opaque
tokens: token `0` is the zero value of the kind; that a text / encoded form parses back to
the same token is the environment law listed in the trusted base.
-/
namespace TM.Codec

inductive Width | w8 | w16 | w32 | w64
deriving DecidableEq, Repr

def Width.pow : Width → Int
  | .w8 => 256 | .w16 => 65536 | .w32 => 4294967296 | .w64 => 18446744073709551616

structure IKind where
  width : Width
  signed : Bool
deriving DecidableEq, Repr

def i64 : IKind := ⟨.w64, true⟩

/-- the values a Go integer of this kind can hold -/
def inRange (k : IKind) (v : Int) : Prop :=
  if k.signed then -(k.width.pow / 2) ≤ v ∧ v < k.width.pow / 2 else 0 ≤ v ∧ v < k.width.pow

instance (k : IKind) (v : Int) : Decidable (inRange k v) := by unfold inRange; exact inferInstance

/-- Go's conversion of an integer to a fixed-width kind (two's complement wrap) -/
def wrap (k : IKind) (x : Int) : Int :=
  if k.signed then (x + k.width.pow / 2) % k.width.pow - k.width.pow / 2 else x % k.width.pow

inductive Kind
  | bool | int (k : IKind) | float | str | bytes | time
  /-- a field with a `binary` / `string` / `json` tag and a custom (un)marshaler -/
  | enc
deriving DecidableEq, Repr

/-- `fields.Descriptor` -/
structure Desc where
  kind : Kind
  ptr : Bool := false
  implicitNull : Bool := false
deriving DecidableEq, Repr

/-- a non-nil Go value -/
inductive Base
  | b (v : Bool) | i (k : IKind) (v : Int) | f (t : Int) | s (t : Int) | by (t : Int) | tm (t : Int) | e (t : Int)
deriving DecidableEq, Repr

/-- a struct field / filter value: `nil` is a nil pointer or a nil `[]byte` -/
inductive FV | nil | val (v : Base)
deriving DecidableEq, Repr

/-- `driver.Value` -/
inductive DV
  | null | int (v : Int) | float (t : Int) | bool (v : Bool) | bytes (t : Int) | str (t : Int) | time (t : Int)
deriving DecidableEq, Repr

inductive Err | coerce | parse | nilNonPtr
deriving DecidableEq, Repr

/-- `isZero` -/
def Base.isZero : Base → Bool
  | .b v => !v
  | .i _ v => v == 0
  | .f t => t == 0
  | .s t => t == 0
  | .by _ => false          -- a non-nil slice is not zero
  | .tm t => t == 0
  | .e t => t == 0

/-- `Valuer.Value`. The dispatch is on the kind of the *value*; the descriptor contributes the tags.
A `binary` / `string` / `json` tag is looked at before `implicitnull` (one `switch`), so an encoded
field is never stored as an implicit NULL. -/
def value (d : Desc) : FV → DV
  | .nil => .null
  | .val (.e t) => .bytes t       -- Marshal / MarshalText / json.Marshal: the encoded form, as bytes
  | .val v =>
      if d.implicitNull && v.isZero then .null
      else match v with
        | .b x => .bool x
        | .i k x => .int (if k.signed then x else wrap i64 x)
        | .f t => .float t
        | .s t => .str t
        | .by t => .bytes t
        | .tm t => .time t
        | .e t => .bytes t

/-- what `Scanner.Scan` is handed -/
inductive Src
  | null
  | i64 (v : Int)                    -- int64 (database/sql, binary protocol)
  | typed (k : IKind) (v : Int)      -- go-mysql binlog: intN of the column's width
  | txtInt (v : Int)                 -- []byte / string holding the decimal text
  | f64 (t : Int) | txtFloat (t : Int)
  | bool (v : Bool)
  | bytes (t : Int) | strv (t : Int)
  | time (t : Int) | txtTime (t : Int)
deriving DecidableEq, Repr

/-- the zero value a non-pointer field keeps when the column is NULL -/
def zeroOf : Kind → FV
  | .bool => .val (.b false)
  | .int k => .val (.i k 0)
  | .float => .val (.f 0)
  | .str => .val (.s 0)
  | .bytes => .nil
  | .time => .val (.tm 0)
  | .enc => .val (.e 0)

/-- `convertAssign` into `int64` (`sql.NullInt64.Scan`) -/
def toInt64 : Src → Except Err Int
  | .i64 v => .ok v
  | .typed _ v => .ok v
  | .txtInt v => if inRange i64 v then .ok v else .error .parse   -- strconv.ParseInt(…, 10, 64)
  | _ => .error .parse

/-- `convertAssign` into `bool` (`sql.NullBool.Scan`, `driver.Bool`) -/
def toBool : Src → Except Err Bool
  | .bool v => .ok v
  | .i64 v => if v = 1 then .ok true else if v = 0 then .ok false else .error .parse
  | .typed _ v => if v = 1 then .ok true else if v = 0 then .ok false else .error .parse
  | .txtInt v => if v = 1 then .ok true else if v = 0 then .ok false else .error .parse
  | _ => .error .parse

/-- `Scanner.Scan` into a field described by `d` -/
def scan (d : Desc) (src : Src) : Except Err FV :=
  match src with
  | .null => .ok (if d.ptr then .nil else zeroOf d.kind)
  | src =>
    match d.kind with
    | .bytes => match src with
        | .bytes t => .ok (.val (.by t))
        | .strv t => .ok (.val (.by t))
        | _ => .error .coerce
    | .time => match src with
        | .time t => .ok (.val (.tm t))
        | .txtTime t => .ok (.val (.tm t))
        | _ => .error .parse
    | .enc => match src with
        | .bytes t => .ok (.val (.e t))
        | .strv t => .ok (.val (.e t))
        | _ => .error .coerce
    | .bool => (toBool src).map (fun b => .val (.b b))
    | .int k => (toInt64 src).map (fun x => .val (.i k (wrap k x)))
    | .float => match src with
        | .f64 t => .ok (.val (.f t))
        | .txtFloat t => .ok (.val (.f t))
        | _ => .error .parse
    | .str => match src with
        | .strv t => .ok (.val (.s t))
        | .bytes t => .ok (.val (.s t))
        | _ => .error .parse

/-- how a stored SQL value comes back -/
inductive Rep
  | driver    -- database/sql with the binary protocol: int64, float64, []byte, time.Time
  | text      -- text protocol: everything as []byte text
  | binlog    -- go-mysql row event: typed ints (signed, of the column's width), strings
deriving DecidableEq, Repr

/-- the width MySQL stores an integer/bool column of this kind in -/
def colKind : Kind → IKind
  | .int k => k
  | _ => ⟨.w8, true⟩

/-- source representation `r` of the stored value `dv` of a column described by `d` -/
def repr (r : Rep) (d : Desc) : DV → Src
  | .null => .null
  | .int v => match r with
      | .driver => .i64 v
      | .text => .txtInt v
      | .binlog => .typed ⟨(colKind d.kind).width, true⟩ (wrap ⟨(colKind d.kind).width, true⟩ v)
  | .bool b => match r with
      | .driver => .i64 (if b then 1 else 0)
      | .text => .txtInt (if b then 1 else 0)
      | .binlog => .typed ⟨.w8, true⟩ (if b then 1 else 0)
  | .float t => match r with | .text => .txtFloat t | _ => .f64 t
  | .bytes t => .bytes t
  | .str t => match r with | .binlog => .strv t | _ => .bytes t
  | .time t => match r with | .driver => .time t | _ => .txtTime t

/-! ## Structs -/

/-- `unbuildStruct` -/
def unbuild (ds : List Desc) (vs : List FV) : List DV := (ds.zip vs).map (fun p => value p.1 p.2)

def buildAux (r : Rep) : List Desc → List DV → Except Err (List FV)
  | d :: ds, v :: vs => do
      let x ← scan d (repr r d v)
      let xs ← buildAux r ds vs
      .ok (x :: xs)
  | _, _ => .ok []

/-- `BuildStruct` / `parseQueryRow` / `parseBinlogRow` (identity column map) -/
def build (r : Rep) (ds : List Desc) (row : List DV) : Except Err (List FV) :=
  if ds.length ≠ row.length then .error .coerce else buildAux r ds row

/-! ## Tester -/

/-- token of the float NaN: the one driver value that is not equal to itself -/
def nanTok : Int := -1

/-- `driverValuesEqual` -/
def dvEq : DV → DV → Bool
  | .null, .null => true
  | .int a, .int b => a == b
  | .float a, .float b => a == b && a != nanTok
  | .bool a, .bool b => a == b
  | .bytes a, .bytes b => a == b
  | .str a, .str b => a == b
  | .time a, .time b => a == b
  | _, _ => false

/-- `tester.Test`: every filter column's value equals the row's, as driver values -/
def test (cols : List Desc) (filter row : List FV) : Bool :=
  ((cols.zip (filter.zip row)).all fun p => dvEq (value p.1 p.2.1) (value p.1 p.2.2))

/-! ## Filter ⇄ protobuf -/

/-- `valueToField` then `FieldToValue`: every driver value kind has its own field kind -/
def protoWire (v : DV) : DV := v

/-- the driver value handed to the scanner by `FilterFromProto` -/
def srcOfDV : DV → Src
  | .null => .null
  | .int v => .i64 v
  | .float t => .f64 t
  | .bool b => .bool b
  | .bytes t => .bytes t
  | .str t => .strv t
  | .time t => .time t

/-- `FilterFromProto (FilterToProto f)` for one column -/
def viaProto (d : Desc) (x : FV) : Except Err FV :=
  let dv := protoWire (value d x)
  if !d.ptr && dv == .null then .error .nilNonPtr else scan d (srcOfDV dv)

end TM.Codec
