/-! Shard / dynamic limits of `sqlgen.DB` (`sqlgen/db.go`): every operation first checks its
filter or its column values against the limits in force and only then builds and issues a
statement. -/
namespace TM.Sql.Limit

/-- a Go value inside an `interface{}`: dynamic type and value (`==` compares both); `none` is nil -/
structure GV where
  ty : Nat
  v : Int
deriving Repr, DecidableEq

abbrev IV := Option GV

/-- `Filter`, the limit maps, and the column/value lists of writes: column ↦ value -/
abbrev KVs := List (Nat × IV)

def get (kvs : KVs) (k : Nat) : Option IV := (kvs.find? (·.1 = k)).map (·.2)

/-- `checkFilterAgainstLimit` / `checkColumnValuesAgainstLimit` (first matching column) -/
def checkLimit (kvs limit : KVs) : Bool := limit.all fun (k, v) => get kvs k == some v

/-- a dynamic limit: the filter its callback returns for the table (if any) and what
`ShouldContinueOnError` answers -/
structure Dyn where
  filter : Option KVs
  continueOnError : Bool
deriving Repr

structure Handle where
  shard : Option KVs := none
  dyn : Option Dyn := none
deriving Repr

/-- `checkFilterAgainstLimits` / `checkColumnValuesAgainstLimits` -/
def check (h : Handle) (kvs : KVs) : Bool :=
  (match h.shard with | some l => checkLimit kvs l | none => true) &&
  (match h.dyn with
   | some d => (match d.filter with | some l => checkLimit kvs l || d.continueOnError | none => true)
   | none => true)

/-- the limits a statement issued through the handle must carry: the shard limit, and the dynamic
limit unless its error callback lets violations through -/
def enforced (h : Handle) : KVs :=
  (h.shard.getD []) ++
  (match h.dyn with
   | some d => if d.continueOnError then [] else d.filter.getD []
   | none => [])

inductive Stmt where
  | select (wher : KVs)                 -- SELECT … WHERE a = ? AND b IS ? (also COUNT)
  | selectBatch (branches : List KVs)   -- the batched SELECT: OR over the combined filters
  | insert (rows : List KVs) (upsert : Bool)
  | update (set wher : KVs)
  | delete (wher : KVs)
deriving Repr, DecidableEq

/-- the statement is confined to `limit` -/
def carries (limit : KVs) : Stmt → Bool
  | .select w => checkLimit w limit
  | .selectBatch bs => bs.all fun w => checkLimit w limit
  | .insert rows _ => rows.all fun r => checkLimit r limit
  | .update set w => checkLimit (w ++ set) limit
  | .delete w => checkLimit w limit

inductive Op where
  | query (filter : KVs)                          -- Query / QueryRow / Count outside a batch
  | insertRow (row : KVs) (upsert : Bool)
  | insertRows (rows : List KVs) (chunk : Nat) (upsert : Bool)
  | updateRow (pk rest : KVs)
  | deleteRow (pk : KVs)
deriving Repr

def chunks {α : Type} (n : Nat) : Nat → List α → List (List α)
  | 0, _ => []
  | _, [] => []
  | f+1, l => l.take (max n 1) :: chunks n f (l.drop (max n 1))

/-- statements issued by an operation, and whether it ended with an error. Writes of several
chunks check every row of every chunk first and issue the chunks only when all comply. -/
def exec (h : Handle) : Op → List Stmt × Bool
  | .query f => if check h f then ([.select f], false) else ([], true)
  | .insertRow r u => if check h r then ([.insert [r] u], false) else ([], true)
  | .insertRows rows n u =>
      if (chunks n rows.length rows).all (fun c => c.all (check h))
      then ((chunks n rows.length rows).map (fun c => .insert c u), false) else ([], true)
  | .updateRow pk rest => if check h (pk ++ rest) then ([.update rest pk], false) else ([], true)
  | .deleteRow pk => if check h pk then ([.delete pk], false) else ([], true)

/-- a batched fetch: queries of several handles on one table, each checked by its own handle
before it joined the batch, combined into one statement -/
def execBatch (qs : List (Handle × KVs)) : Option Stmt :=
  if qs.all (fun q => check q.1 q.2) then some (.selectBatch (qs.map (·.2))) else none

end TM.Sql.Limit
