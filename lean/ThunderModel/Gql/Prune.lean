import ThunderModel.Gql.Exec
/-! Textual pruning of a query: delete every node whose directives exclude it, drop the
directives from the rest (the right-hand side of property C19). -/
namespace TM.Gql

mutual
def Sel.prune : Sel → Sel
  | .mk a n _ sub => .mk a n {} (pruneOpt sub)
def pruneOpt : Option SelSet → Option SelSet
  | none => none
  | some s => some s.prune
def SelSet.prune : SelSet → SelSet
  | .mk sels frags => .mk (pruneSels sels) (pruneFrags frags)
def pruneSels : List Sel → List Sel
  | [] => []
  | s :: r => if s.dirs.included then s.prune :: pruneSels r else pruneSels r
def pruneFrags : List Frag → List Frag
  | [] => []
  | fr :: r => if fr.dirs.included then fr.prune :: pruneFrags r else pruneFrags r
def Frag.prune : Frag → Frag
  | .mk on _ set => .mk on {} set.prune
end

end TM.Gql
