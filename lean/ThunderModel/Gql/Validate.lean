import ThunderModel.Gql.Exec
/-! Validation (`Parse`'s conflict detection + `PrepareQuery`), validity after merging, shape
safety of evaluation, well-typed data and response conformance (property C14). -/
namespace TM.Gql
open TM

/-- `PrepareQuery`: walks the selection set against the type. Fragments under an object are
validated against that object whatever their type condition; under a union only fragments on a
member are validated, and the only selection allowed is `__typename`. -/
def validate (σ : Schema) : Nat → Ty → Option SelSet → Bool
  | 0, _, _ => false
  | _+1, .scalar, ss => ss.isNone
  | f+1, .nonNull t, ss => validate σ f t ss
  | f+1, .list t, ss => validate σ f t ss
  | f+1, .object n, ss =>
      match ss, lookup n σ.objects with
      | some ss, some od =>
          ss.sels.all (fun s =>
            if s.name = 0 then s.sub.isNone
            else match findField s.name od.fields with
              | some fd => validate σ f fd.ty s.sub
              | none => false) &&
          ss.frags.all (fun fr => validate σ f (.object n) (some fr.set))
      | _, _ => false
  | f+1, .union n, ss =>
      match ss with
      | some ss =>
          ss.sels.all (fun s => s.name = 0 && s.sub.isNone) &&
          ss.frags.all (fun fr => if ((lookup n σ.unions).getD []).contains fr.on then validate σ f (.object fr.on) (some fr.set) else true)
      | none => false

/-- the selections `Flatten` would merge under one alias agree on the field and on having
sub-selections (arguments are not modelled) -/
def groupOk : List Sel → Bool
  | [] => true
  | s :: rest => rest.all fun x => x.name == s.name && x.sub.isSome == s.sub.isSome

/-- like `visit`, ignoring directives and type conditions -/
def visitAll : Nat → SelSet → List Sel
  | 0, _ => []
  | f+1, ss => ss.sels ++ ss.frags.flatMap (fun fr => visitAll f fr.set)

/-- conflict detection on the merged form, at every level, against the type
(`detectMergeConflicts`): under an object every fragment is merged whatever its type condition,
under a union only the fragments on the same member; directives are not consulted -/
def noConflict (σ : Schema) : Nat → Ty → Option SelSet → Bool
  | 0, _, _ => false
  | _+1, .scalar, _ => true
  | f+1, .nonNull t, ss => noConflict σ f t ss
  | f+1, .list t, ss => noConflict σ f t ss
  | f+1, .object n, ss =>
      match ss, lookup n σ.objects with
      | some ss, some od =>
          (groupByAlias (visitAll f ss).reverse).all fun (a, g) =>
            groupOk g.reverse &&
            match mergeGroup a g.reverse with
            | some ⟨_, name, some sub⟩ =>
                (match findField name od.fields with
                 | some fd => noConflict σ f fd.ty (some sub)
                 | none => true)
            | _ => true
      | _, _ => true
  | f+1, .union n, ss =>
      match ss with
      | some ss => ((lookup n σ.unions).getD []).all fun m =>
          noConflict σ f (.object m) (some (.mk [] (ss.frags.filter fun fr => fr.on == m)))
      | none => true

/-- validity of the merged (flattened) form against a type: what evaluation actually relies on -/
def validF (σ : Schema) : Nat → Ty → Option SelSet → Bool
  | 0, _, _ => false
  | _+1, .scalar, ss => ss.isNone
  | f+1, .nonNull t, ss => validF σ f t ss
  | f+1, .list t, ss => validF σ f t ss
  | f+1, .object n, ss =>
      match ss, lookup n σ.objects with
      | some ss, some od => flatsOk f od (flatten (fun _ => true) f ss)
      | _, _ => false
  | f+1, .union n, ss =>
      match ss with
      | some ss =>
          ss.sels.all (fun s => s.name = 0 && s.sub.isNone) &&
          ((lookup n σ.unions).getD []).all fun m =>
            match lookup m σ.objects with
            | some od => flatsOk f od (flatten (fun _ => true) f (.mk ss.sels (ss.frags.filter fun fr => fr.on == m)))
            | none => true
      | none => false
where
  flatsOk (f : Nat) (od : ObjDef) (fls : List Flat) : Bool :=
    fls.all fun fl =>
      if fl.name = 0 then fl.sub.isNone
      else match findField fl.name od.fields with
        | some fd => validF σ f fd.ty fl.sub
        | none => false

/-- evaluation never meets a situation the executor is not prepared for: an unknown field, a
composite value without selections, selections under a leaf -/
def shapeOk (σ : Schema) : Nat → Ty → Option SelSet → Val → Bool
  | 0, _, _, _ => false
  | _+1, .scalar, ss, _ => ss.isNone
  | f+1, .nonNull t, ss, v => shapeOk σ f t ss v
  | f+1, .list t, ss, v =>
      match v with
      | .list xs => xs.all fun x => shapeOk σ f t ss x
      | _ => true
  | f+1, .object n, ss, v =>
      match v with
      | .obj _ fields =>
          match ss, lookup n σ.objects with
          | some ss, some od => objOk f od fields (flatten (fun _ => true) f ss)
          | _, _ => false
      | _ => ss.isSome
  | f+1, .union n, ss, v =>
      match v with
      | .obj m fields =>
          match ss with
          | some ss =>
              if ((lookup n σ.unions).getD []).contains m then
                match lookup m σ.objects with
                | some od => objOk f od fields (flatten (fun _ => true) f (.mk ss.sels (ss.frags.filter fun fr => fr.on == m)))
                | none => true
              else true
          | none => false
      | _ => ss.isSome
where
  objOk (f : Nat) (od : ObjDef) (fields : List (Nat × Val)) (fls : List Flat) : Bool :=
    fls.all fun fl =>
      if fl.name = 0 then fl.sub.isNone
      else match findField fl.name od.fields with
        | some fd => shapeOk σ f fd.ty fl.sub ((lookup fd.src fields).getD .null)
        | none => false

end TM.Gql
