import ThunderModel.Gql.Exec
/-! Errors: every failing resolver a query reaches (the admissible errors of an execution), and
the sanitisation of Go errors for clients. -/
namespace TM.Gql
open TM

/-- every failing field the sequential evaluation can reach when it does not stop at the first
error, with the error `nestPathError` would build for it and whether the field ran as a batch
resolver (then thunder records the path of the unit's first destination) -/
def refErrs (σ : Schema) : Nat → List PE → Ty → Option SelSet → Val → List (Err × Bool)
  | 0, _, _, _, _ => []
  | f+1, p, .nonNull t, ss, v => refErrs σ f p t ss v
  | _+1, _, .scalar, _, _ => []
  | f+1, p, .list t, ss, v =>
      match v with
      | .list xs => xs.zipIdx.flatMap fun (x, i) => refErrs σ f (p ++ [.idx i]) t ss x
      | _ => []
  | f+1, p, .object n, ss, v =>
      match lookup n σ.objects, ss with
      | some od, some ss => if v.isObj then objErrs f p od v.fields (flatten (fun _ => true) f ss) else []
      | _, _ => []
  | f+1, p, .union n, ss, v =>
      match v, ss with
      | .obj m fields, some ss =>
          match lookup m σ.objects with
          | some od =>
              if ((lookup n σ.unions).getD []).contains m then
                objErrs f p od fields (flatten (fun _ => true) f (.mk ss.sels (ss.frags.filter fun fr => fr.on == m)))
              else []
          | none => []
      | _, _ => []
where
  objErrs (f : Nat) (p : List PE) (od : ObjDef) (fields : List (Nat × Val)) (sels : List Flat) : List (Err × Bool) :=
    sels.flatMap fun fl =>
      if fl.name = 0 then []
      else match findField fl.name od.fields with
        | some fd =>
            let v := (lookup fd.src fields).getD .null
            match failOf v with
            | some (e, s) => [(mkErr e s (p ++ [.key fl.alias]), fd.useBatch)]
            | none => refErrs σ f (p ++ [.key fl.alias]) fd.ty fl.sub v
        | none => []

def referenceErrs (σ : Schema) (fuel : Nat) (root : Nat) (rootVal : Val) (q : SelSet) : List (Err × Bool) :=
  match lookup root σ.objects, rootVal with
  | some od, .obj _ fields => refErrs.objErrs σ fuel [] { od with key := none } fields (flatten (fun _ => true) fuel q)
  | _, _ => []

/-! ## What a client may see -/

/-- Go errors as the server meets them -/
inductive GoErr where
  | plain (text : Nat)                       -- errors.New / fmt.Errorf
  | safe (text : Nat)                        -- NewSafeError / NewClientError
  | wrapSafe (inner : GoErr) (text : Nat)    -- WrapAsSafeError(inner, text)
  | wrapf (inner : GoErr) (text : Nat)       -- fmt.Errorf("...%w", inner)
  | path (inner : GoErr) (p : List Nat)      -- *pathError
  | panicked (text : Nat)                    -- recovered resolver panic
deriving Repr, DecidableEq

inductive Msg where
  | generic            -- "Internal server error"
  | text (t : Nat)
deriving Repr, DecidableEq

/-- `err.(SanitizedError)` -/
def GoErr.isSanitized : GoErr → Bool
  | .safe _ => true
  | .wrapSafe _ _ => true
  | _ => false

/-- `SanitizeError` -/
def sanitize : GoErr → Msg
  | .safe t => .text t
  | .wrapSafe _ t => .text t
  | _ => .generic

/-- `nestPathError` -/
def nest (key : Nat) (e : GoErr) : GoErr :=
  if e.isSanitized then e
  else match e with
    | .path inner p => .path inner (p ++ [key])
    | e => .path e [key]

/-- the texts an error carries that are *not* marked safe for clients -/
def GoErr.unsafeTexts : GoErr → List Nat
  | .plain t => [t]
  | .safe _ => []
  | .wrapSafe inner _ => inner.unsafeTexts ++ (match inner with | .safe t => [t] | .wrapSafe _ t => [t] | _ => [])
  | .wrapf inner t => t :: inner.unsafeTexts
  | .path inner _ => inner.unsafeTexts
  | .panicked t => [t]

end TM.Gql
