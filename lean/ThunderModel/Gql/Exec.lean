import ThunderModel.Json
/-!
# GraphQL execution: `Flatten` (`graphql/parser.go`), `ShouldIncludeNode` (`directive.go`), the
batch executor (`batch_executor.go`) and the reference semantics it must agree with

Resolvers are functions of the data: an object value carries the values of its fields, a field
whose resolver fails carries `.fail`.  Work units keep their sources as a list; every execution
mode (inline / external / Expensive / batch / batch-with-fallback / `NumParallelInvocations k`)
is modelled by how it partitions that list, executes the parts and puts the results back — the
place where sources and destinations could be mis-paired.  Recursion uses a fuel argument.
Name `0` is `__typename`; response key `0` is `__key`.
-/
namespace TM.Gql
open TM

inductive Ty where
  | scalar
  | list (t : Ty)
  | nonNull (t : Ty)
  | object (n : Nat)
  | union (n : Nat)
deriving Repr, DecidableEq

inductive Mode where
  | inline | external | expensive | batch | fallback (useBatch : Bool)
deriving Repr, DecidableEq

structure FieldDef where
  name : Nat
  ty : Ty
  mode : Mode := .inline
  /-- `NumParallelInvocationsFunc` -/
  parallel : Option Nat := none
  /-- which datum of the source object the resolver reads (several fields may expose one datum
  under different execution modes) -/
  src : Nat := name
deriving Repr

structure ObjDef where
  fields : List FieldDef
  /-- name of the key field -/
  key : Option Nat := none
deriving Repr

structure Schema where
  objects : List (Nat × ObjDef)
  unions : List (Nat × List Nat)
deriving Repr

/-- data: what resolvers return -/
inductive Val where
  | null
  | sc (v : Int)
  | list (xs : List Val)
  | obj (typ : Nat) (fields : List (Nat × Val))
  /-- asking for this value makes the resolver fail with error `e` (`safe`: marked client-safe) -/
  | fail (e : Nat) (safe : Bool)
deriving Repr

structure Dirs where
  skip : Option Bool := none
  incl : Option Bool := none
deriving Repr, DecidableEq

/-- `ShouldIncludeNode`: included only if both directives allow it -/
def Dirs.included (d : Dirs) : Bool := d.skip != some true && d.incl != some false

mutual
inductive Sel where
  | mk (alias name : Nat) (dirs : Dirs) (sub : Option SelSet)
inductive SelSet where
  | mk (sels : List Sel) (frags : List Frag)
inductive Frag where
  | mk (on : Nat) (dirs : Dirs) (set : SelSet)
end

def Sel.alias : Sel → Nat | .mk a _ _ _ => a
def Sel.name : Sel → Nat | .mk _ n _ _ => n
def Sel.dirs : Sel → Dirs | .mk _ _ d _ => d
def Sel.sub : Sel → Option SelSet | .mk _ _ _ s => s
def SelSet.sels : SelSet → List Sel | .mk s _ => s
def SelSet.frags : SelSet → List Frag | .mk _ f => f
def Frag.on : Frag → Nat | .mk o _ _ => o
def Frag.dirs : Frag → Dirs | .mk _ d _ => d
def Frag.set : Frag → SelSet | .mk _ _ s => s

inductive PE where
  | key (a : Nat)
  | idx (i : Nat)
deriving Repr, DecidableEq

structure Err where
  code : Nat
  safe : Bool
  path : List PE      -- root first; empty for a client-safe error
deriving Repr, DecidableEq

def lookup {α : Type} (k : Nat) : List (Nat × α) → Option α
  | [] => none
  | (k', a) :: r => if k = k' then some a else lookup k r

def findField (n : Nat) : List FieldDef → Option FieldDef
  | [] => none
  | f :: r => if f.name = n then some f else findField n r

/-! ## `Flatten` -/

/-- the selections reached from a selection set, in visiting order: own selections, then those
of every included fragment (`typeOk` decides whether a fragment's type condition applies) -/
def visit (typeOk : Nat → Bool) : Nat → SelSet → List Sel
  | 0, _ => []
  | f+1, ss =>
      (ss.sels.filter (fun s => s.dirs.included)) ++
      (ss.frags.filter (fun fr => fr.dirs.included && typeOk fr.on)).flatMap (fun fr => visit typeOk f fr.set)

/-- group by alias, first occurrence first -/
def groupByAlias : List Sel → List (Nat × List Sel)
  | [] => []
  | s :: rest =>
      let g := groupByAlias rest
      match lookup s.alias g with
      | some _ => g.map (fun (a, l) => if a = s.alias then (a, s :: l) else (a, l))
      | none => (s.alias, [s]) :: g

/-- one flattened selection: alias, name, merged sub-selection -/
structure Flat where
  alias : Nat
  name : Nat
  sub : Option SelSet

def mergeGroup (alias : Nat) : List Sel → Option Flat
  | [] => none
  | [s] => some ⟨alias, s.name, s.sub⟩
  | s :: rest =>
      match s.sub with
      | none => some ⟨alias, s.name, none⟩
      | some _ =>
          let all := s :: rest
          some ⟨alias, s.name, some (.mk (all.flatMap fun x => (x.sub.map SelSet.sels).getD [])
                                         (all.flatMap fun x => (x.sub.map SelSet.frags).getD []))⟩

/-- `Flatten` (after the repairs: selection directives are honoured, every spread has its own directives) -/
def flatten (typeOk : Nat → Bool) (fuel : Nat) (ss : SelSet) : List Flat :=
  -- groupByAlias is built from the right; reverse twice to get first-occurrence order
  ((groupByAlias (visit typeOk fuel ss).reverse).map fun (a, l) => mergeGroup a l.reverse).reverse.filterMap id

/-! ## Reference semantics -/

def leaf : Val → J
  | .sc v => .sc v
  | _ => .null

def Val.isObj : Val → Bool
  | .obj _ _ => true
  | _ => false

def Val.fields : Val → List (Nat × Val)
  | .obj _ fs => fs
  | _ => []

/-- naive sequential evaluation of one value under a selection -/
def refEval (σ : Schema) : Nat → List PE → Ty → Option SelSet → Val → Except Err J
  | 0, _, _, _, _ => .error ⟨0, false, []⟩
  | _+1, p, _, _, .fail e safe => .error ⟨e, safe, if safe then [] else p⟩
  | f+1, p, .nonNull t, ss, v => refEval σ f p t ss v
  | _+1, _, .scalar, _, v => .ok (leaf v)
  | f+1, p, .list t, ss, v =>
      match v with
      | .list xs => do
          let rs ← (xs.zipIdx.mapM fun (x, i) => refEval σ f (p ++ [.idx i]) t ss x)
          .ok (.arr rs)
      | _ => .ok (.arr [])
  | f+1, p, .object n, ss, v =>
      match lookup n σ.objects, ss with
      | some od, some ss => if v.isObj then refObject f p n od v.fields (flatten (fun _ => true) f ss) else .ok .null
      | _, _ => .ok .null
  | f+1, p, .union n, ss, v =>
      match v, ss with
      | .obj m fields, some ss =>
          match lookup m σ.objects with
          | some od =>
              if ((lookup n σ.unions).getD []).contains m then
                -- union-level selections (only `__typename`) plus the fragments on the member
                refObject f p m od fields (flatten (fun _ => true) f (.mk ss.sels (ss.frags.filter fun fr => fr.on == m)))
              else .ok .null
          | none => .ok .null
      | _, _ => .ok .null
where
  refSel (f : Nat) (p : List PE) (n : Nat) (od : ObjDef) (fields : List (Nat × Val)) (fl : Flat) : Except Err (Nat × J) :=
    if fl.name = 0 then .ok (fl.alias, J.sc n)
    else match findField fl.name od.fields with
      | some fd => do
          let r ← refEval σ f (p ++ [.key fl.alias]) fd.ty fl.sub ((lookup fd.src fields).getD .null)
          .ok (fl.alias, r)
      | none => .ok (fl.alias, J.null)
  refKey (f : Nat) (p : List PE) (od : ObjDef) (fields : List (Nat × Val)) : Except Err (List (Nat × J)) :=
    match od.key with
    | some k => do
        let kv ← refEval σ f (p ++ [.key 0]) .scalar none ((lookup k fields).getD .null)
        .ok [(0, kv)]
    | none => .ok []
  refObject (f : Nat) (p : List PE) (n : Nat) (od : ObjDef) (fields : List (Nat × Val)) (sels : List Flat) : Except Err J := do
    let kvs ← sels.mapM (refSel f p n od fields)
    let key ← refKey f p od fields
    .ok (.obj (kvs ++ key))

end TM.Gql

namespace TM.Gql
open TM

/-! ## The batch executor -/

/-- cut `xs` into consecutive pieces of the given lengths -/
def regroup {α : Type} : List Nat → List α → List (List α)
  | [], _ => []
  | n :: ns, xs => xs.take n :: regroup ns (xs.drop n)

/-- `splitToNWorkUnits`: unit `j` gets the items at positions `j, j+k, j+2k, …` (the Go loop
appends item `idx` to unit `idx % k`, so every unit holds that arithmetic progression, ascending) -/
def splitN {α : Type} (dflt : α) (k : Nat) (xs : List α) : List (List α) :=
  (List.range k).map fun j => (List.range ((xs.length + k - 1 - j) / k)).map fun q => xs.getD (q * k + j) dflt

/-- the clamp of `splitToNWorkUnits` -/
def clampUnits (k n : Nat) : Nat := if k > n then (if n = 0 then 1 else n) else if k = 0 then 1 else k

/-- put the results of the `k` units back at the positions their sources came from -/
def gather {β : Type} (k n : Nat) (rs : List (List β)) (dflt : β) : List β :=
  (List.range n).map fun i => ((rs.getD (i % k) []).getD (i / k) dflt)

/-- put results back: `none` positions get `null`, `some m` positions take the next result of queue `m` -/
def mergeBack : List (Option Nat) → List (Nat × List J) → List J
  | [], _ => []
  | none :: ts, qs => .null :: mergeBack ts qs
  | some m :: ts, qs =>
      match lookup m qs with
      | some (r :: rest) => r :: mergeBack ts (qs.map fun (k, l) => if k = m then (k, rest) else (k, l))
      | _ => .null :: mergeBack ts qs

abbrev Item := List PE × Val

def failOf : Val → Option (Nat × Bool)
  | .fail e s => some (e, s)
  | _ => none

def mkErr (e : Nat) (safe : Bool) (p : List PE) : Err := ⟨e, safe, if safe then [] else p⟩

/-- the first failing resolver of a unit executed item by item -/
def firstFail : List Item → Option Err
  | [] => none
  | (p, v) :: rest => match failOf v with
      | some (e, s) => some (mkErr e s p)
      | none => firstFail rest

/-- a batch resolver fails as a whole: the error of the first failing source, recorded at the
first destination of the unit -/
def batchFail : List Item → Option Err
  | [] => none
  | items@((p0, _) :: _) => match items.findSome? (fun it => failOf it.2) with
      | some (e, s) => some (mkErr e s p0)
      | none => none

/-- does the unit call the batch resolver? -/
def FieldDef.useBatch (fd : FieldDef) : Bool :=
  match fd.mode with
  | .batch => true
  | .fallback b => b
  | _ => false

/-- an Expensive field runs as one unit per source -/
def expensiveOne (rb : Ty → Option SelSet → List Item → Except Err (List J))
    (fd : FieldDef) (sub : Option SelSet) (it : Item) : Except Err (List J) :=
  match failOf it.2 with
  | some (e, s) => .error (mkErr e s it.1)
  | none => rb fd.ty sub [it]

/-- one work unit over `part` of the sources; `rb` resolves the field's results (`resolveBatch`
one level down) -/
def unitOne (rb : Ty → Option SelSet → List Item → Except Err (List J))
    (fd : FieldDef) (sub : Option SelSet) (part : List Item) : Except Err (List J) :=
  if fd.useBatch then
    match batchFail part with
    | some e => .error e
    | none => rb fd.ty sub part
  else if fd.mode = .expensive then
    -- one unit per source
    (part.mapM (expensiveOne rb fd sub)).map List.flatten
  else
    match firstFail part with
    | some e => .error e
    | none => rb fd.ty sub part

/-- is the unit split by `NumParallelInvocationsFunc`? (batch and external non-expensive fields only) -/
def FieldDef.splits (fd : FieldDef) : Option Nat :=
  match fd.parallel with
  | none => none
  | some k => if fd.useBatch then some k else if fd.mode = .expensive || fd.mode = .inline then none else some k

/-- `executeWorkUnit` by execution mode -/
def execUnitWith (rb : Ty → Option SelSet → List Item → Except Err (List J))
    (fd : FieldDef) (sub : Option SelSet) (items : List Item) : Except Err (List J) :=
  match fd.splits with
  | none => unitOne rb fd sub items
  | some k =>
      let k' := clampUnits k items.length
      do
        let rs ← (splitN ([], Val.null) k' items).mapM (unitOne rb fd sub)
        .ok (gather k' items.length rs .null)

/-- the results of one flattened selection for all non-nil sources (one "column") -/
def column (rb : Ty → Option SelSet → List Item → Except Err (List J))
    (n : Nat) (od : ObjDef) (nonNil : List Item) (fl : Flat) : Except Err (Nat × List J) :=
  if fl.name = 0 then .ok (fl.alias, nonNil.map fun _ => J.sc n)
  else match findField fl.name od.fields with
    | some fd => do
        let rs ← execUnitWith rb fd fl.sub (nonNil.map fun it => (it.1 ++ [.key fl.alias], (lookup fd.src it.2.fields).getD .null))
        .ok (fl.alias, rs)
    | none => .ok (fl.alias, nonNil.map fun _ => J.null)

def keyColumn (rb : Ty → Option SelSet → List Item → Except Err (List J))
    (od : ObjDef) (nonNil : List Item) : Except Err (List (Nat × List J)) :=
  match od.key with
  | some k => do
      let rs ← execUnitWith rb ⟨k, .scalar, .inline, none, k⟩ none (nonNil.map fun it => (it.1 ++ [.key 0], (lookup k it.2.fields).getD .null))
      .ok [((0 : Nat), rs)]
  | none => .ok []

/-- `resolveObjectBatch` on the flattened selections -/
def resolveObjectWith (rb : Ty → Option SelSet → List Item → Except Err (List J))
    (n : Nat) (od : ObjDef) (sels : List Flat) (items : List Item) : Except Err (List J) :=
  let nonNil : List Item := items.filter fun it => it.2.isObj
  do
    -- one column of results per selection, parallel to `nonNil`
    let cols ← sels.mapM (column rb n od nonNil)
    let keyCol ← keyColumn rb od nonNil
    let all := cols ++ keyCol
    let objs : List J := (List.range nonNil.length).map fun j => J.obj (all.map fun (ac : Nat × List J) => (ac.1, ac.2.getD j .null))
    .ok (mergeBack (items.map fun it => if it.2.isObj then some 0 else none) [(0, objs)])

/-- the union member an item's value belongs to (`resolveUnionBatch`'s reflect walk over the embedded pointers) -/
def unionTag (members : List Nat) (it : Item) : Option Nat :=
  match it.2 with
  | .obj m _ => if members.contains m then some m else none
  | _ => none

/-- the items whose value is of member `m` -/
def isMember (m : Nat) (it : Item) : Bool :=
  match it.2 with
  | .obj m' _ => m' == m
  | _ => false

/-- the child items of a list-valued item: one per element, at path `…/i` -/
def listChildren (it : Item) : List Item :=
  match it.2 with
  | .list xs => xs.zipIdx.map fun (x, i) => (it.1 ++ [.idx i], x)
  | _ => []

/-- `resolveBatch`: results parallel to `items` -/
def resolveBatch (σ : Schema) : Nat → Ty → Option SelSet → List Item → Except Err (List J)
  | _, _, _, [] => .ok []
  | 0, _, _, _ => .error ⟨0, false, []⟩
  | f+1, .nonNull t, ss, items => resolveBatch σ f t ss items
  | _+1, .scalar, _, items => .ok (items.map fun it => leaf it.2)
  | f+1, .list t, ss, items =>
      let children : List (List Item) := items.map listChildren
      -- (a list element cannot itself be a failing resolver in Go; totalised like the reference)
      match firstFail children.flatten with
      | some e => .error e
      | none => do
        let rs ← resolveBatch σ f t ss children.flatten
        .ok ((regroup (children.map List.length) rs).map J.arr)
  | f+1, .object n, ss, items =>
      match lookup n σ.objects, ss with
      | some od, some ss => resolveObjectWith (resolveBatch σ f) n od (flatten (fun _ => true) f ss) items
      | _, _ => .ok (items.map fun _ => .null)
  | f+1, .union n, ss, items =>
      match ss with
      | none => .ok (items.map fun _ => .null)
      | some ss =>
        let members := (lookup n σ.unions).getD []
        let tags : List (Option Nat) := items.map (unionTag members)
        do
          let queues ← members.mapM fun m =>
            let mine := items.filter (isMember m)
            match lookup m σ.objects with
            | some od => do
                -- repaired `resolveUnionBatch`: union-level selections + all fragments on the member, merged
                let merged := SelSet.mk ss.sels (ss.frags.filter fun fr => fr.on == m)
                let rs ← resolveObjectWith (resolveBatch σ f) m od (flatten (fun _ => true) f merged) mine
                pure (m, rs)
            | none => pure (m, mine.map fun _ => J.null)
          .ok (mergeBack tags queues)

/-- `Executor.Execute` for a query on the root object -/
def execute (σ : Schema) (fuel : Nat) (root : Nat) (rootVal : Val) (q : SelSet) : Except Err J :=
  match lookup root σ.objects with
  | some od => do
      let rs ← resolveObjectWith (resolveBatch σ fuel) root { od with key := none } (flatten (fun _ => true) fuel q) [([], rootVal)]
      .ok (rs.headD .null)
  | none => .error ⟨0, false, []⟩

/-- the specification: sequential reference evaluation of the root object -/
def reference (σ : Schema) (fuel : Nat) (root : Nat) (rootVal : Val) (q : SelSet) : Except Err J :=
  match lookup root σ.objects, rootVal with
  | some od, .obj _ fields => refEval.refObject σ fuel [] root { od with key := none } fields (flatten (fun _ => true) fuel q)
  | some _, _ => .ok .null
  | none, _ => .error ⟨0, false, []⟩

end TM.Gql
