/-!
# Arguments: literal → JSON (`graphql/parser.go` `valueToJson`, variable defaults in `Parse`)
and JSON → Go value (`graphql/schemabuilder/input.go`)

Numbers are JSON numbers (`float64`): `num tok trunc` carries the identity of the float
(`tok`, opaque) and its truncation toward zero (`trunc`), which is all the integer parsers
look at.  Strings, byte slices, times and text-unmarshaled values are opaque tokens; that
base64 / RFC 3339 / `UnmarshalText` invert their encoders is the environment law listed in the
trusted base.  Recursion over types uses a fuel argument (any fuel above the type's depth).
-/
namespace TM.Args

inductive Width | w8 | w16 | w32 | w64
deriving DecidableEq, Repr

def Width.pow : Width → Int
  | .w8 => 256 | .w16 => 65536 | .w32 => 4294967296 | .w64 => 18446744073709551616

structure IKind where
  width : Width
  signed : Bool
deriving DecidableEq, Repr

def inRange (k : IKind) (v : Int) : Prop :=
  if k.signed then -(k.width.pow / 2) ≤ v ∧ v < k.width.pow / 2 else 0 ≤ v ∧ v < k.width.pow

def wrap (k : IKind) (x : Int) : Int :=
  if k.signed then (x + k.width.pow / 2) % k.width.pow - k.width.pow / 2 else x % k.width.pow

/-- argument types the schema builder supports -/
inductive ATy where
  | bool | int (k : IKind) | float | str | bytes | time
  | enum (values : List Nat)
  | text                                 -- encoding.TextUnmarshaler
  | ptr (t : ATy)                        -- pointer: optional
  | optional (t : ATy)                   -- `graphql:",optional"`: absent ⇒ zero value
  | list (t : ATy)
  | struct (fields : List (Nat × ATy))   -- input object
deriving Repr

/-- JSON as produced by `valueToJson` or decoded from a variables map -/
inductive JV where
  | null
  | b (v : Bool)
  | num (tok : Int) (trunc : Int)
  | str (tok : Int)                      -- any JSON string (also enum names: `enumStr`)
  | enumStr (name : Nat)                 -- a JSON string that spells the enum value `name`
  | list (xs : List JV)
  | obj (kvs : List (Nat × JV))
deriving Repr

/-- GraphQL literals (`ast.Value`) -/
inductive Lit where
  | int (n : Int) (tok : Int)            -- IntValue; `tok` = identity of `float64(n)`
  | float (tok : Int) (trunc : Int)
  | str (tok : Int)
  | enumStrLit (name : Nat)              -- a string literal that happens to spell an enum value
  | b (v : Bool)
  | enum (name : Nat)                    -- EnumValue (bare identifier)
  | list (xs : List Lit)
  | obj (kvs : List (Nat × Lit))
  | var (name : Nat)
deriving Repr

/-- the Go value a resolver receives -/
inductive GV where
  | b (v : Bool) | i (k : IKind) (v : Int) | f (tok : Int) | s (tok : Int) | by (tok : Int) | tm (tok : Int)
  | enumv (name : Nat) | text (tok : Int)
  | nil                                   -- nil pointer
  | ptr (v : GV)
  | list (xs : List GV)
  | struct (fields : List (Nat × GV))
deriving Repr

inductive Err | kind | unknownEnum | dupField | fuel
deriving DecidableEq, Repr

def lookup {α : Type} (k : Nat) : List (Nat × α) → Option α
  | [] => none
  | (k', a) :: r => if k = k' then some a else lookup k r

/-! ## `valueToJson` -/

mutual
def litJson (vars : List (Nat × JV)) : Lit → Except Err JV
  | .int n tok => .ok (.num tok n)
  | .float tok tr => .ok (.num tok tr)
  | .str tok => .ok (.str tok)
  | .enumStrLit n => .ok (.enumStr n)
  | .b v => .ok (.b v)
  | .enum n => .ok (.enumStr n)
  | .var n => .ok ((lookup n vars).getD .null)
  | .list xs => (litJsonList vars xs).map .list
  | .obj kvs => (litJsonObj vars kvs []).map .obj
def litJsonList (vars : List (Nat × JV)) : List Lit → Except Err (List JV)
  | [] => .ok []
  | x :: xs => do
      let j ← litJson vars x
      let js ← litJsonList vars xs
      .ok (j :: js)
def litJsonObj (vars : List (Nat × JV)) : List (Nat × Lit) → List Nat → Except Err (List (Nat × JV))
  | [], _ => .ok []
  | (k, x) :: rest, seen =>
      if seen.contains k then .error .dupField
      else do
        let j ← litJson vars x
        let js ← litJsonObj vars rest (k :: seen)
        .ok ((k, j) :: js)
end

/-- a variable definition: name, whether its type is `NON_NULL`, optional default literal -/
structure VarDef where
  name : Nat
  nonNull : Bool
  default : Option Lit
deriving Repr

/-- the variable defaulting of `Parse`: a default is used exactly when the variable map holds no
non-null value for it (`vars[name] != nil` keeps the supplied value) -/
def applyDefaults (defs : List VarDef) (vars : List (Nat × JV)) : Except Err (List (Nat × JV)) :=
  defs.foldlM (fun acc d =>
    if d.nonNull then
      (if d.default.isSome then .error .kind else .ok acc)
    else match d.default with
      | none => .ok acc
      | some lit =>
          match lookup d.name vars with
          | some .null | none => do
              let j ← litJson vars lit
              .ok ((d.name, j) :: acc)
          | some _ => .ok acc) vars

/-! ## `argParser.FromJSON` -/

/-- zero value of a type (what an absent `optional` field keeps) -/
def zero : Nat → ATy → GV
  | 0, _ => .nil
  | _+1, .bool => .b false
  | _+1, .int k => .i k 0
  | _+1, .float => .f 0
  | _+1, .str => .s 0
  | _+1, .bytes => .by 0
  | _+1, .time => .tm 0
  | _+1, .enum _ => .enumv 0
  | _+1, .text => .text 0
  | _+1, .ptr _ => .nil
  | f+1, .optional t => zero f t
  | _+1, .list _ => .list []
  | f+1, .struct fields => .struct (fields.map fun (k, t) => (k, zero f t))

def parse : Nat → ATy → JV → Except Err GV
  | 0, _, _ => .error .fuel
  | f+1, .ptr t, j =>
      match j with
      | .null => .ok .nil
      | j => (parse f t j).map .ptr
  | f+1, .optional t, j =>
      match j with
      | .null => .ok (zero f t)
      | j => parse f t j
  | _+1, .bool, .b v => .ok (.b v)
  | _+1, .int k, .num _ tr => .ok (.i k (wrap k tr))
  | _+1, .float, .num tok _ => .ok (.f tok)
  | _+1, .str, .str tok => .ok (.s tok)
  | _+1, .str, .enumStr n => .ok (.s (-(n : Int) - 1))     -- an enum literal given to a string argument: its spelling
  | _+1, .bytes, .str tok => .ok (.by tok)
  | _+1, .time, .str tok => .ok (.tm tok)
  | _+1, .text, .str tok => .ok (.text tok)
  | _+1, .enum vals, .enumStr n => if vals.contains n then .ok (.enumv n) else .error .unknownEnum
  | _+1, .enum _, .str _ => .error .unknownEnum
  | f+1, .list t, .list xs => (xs.mapM (parse f t)).map .list
  | f+1, .struct fields, .obj kvs =>
      (fields.mapM fun (k, t) => (parse f t ((lookup k kvs).getD .null)).map (fun v => (k, v))).map .struct
  | _+1, _, _ => .error .kind

def ATy.depth : ATy → Nat
  | .ptr t => t.depth + 1
  | .optional t => t.depth + 1
  | .list t => t.depth + 1
  | .struct fields => depthFields fields + 1
  | _ => 0
where depthFields : List (Nat × ATy) → Nat
  | [] => 0
  | (_, t) :: r => max t.depth (depthFields r)

end TM.Args
