import ThunderModel.Gql.Validate
/-! Well-typed data and response conformance to the advertised type (property C14). -/
namespace TM.Gql
open TM

def Val.isNull : Val → Bool
  | .null => true
  | _ => false

/-- the data a resolver can return for a field of the advertised type (Go's type system
guarantees it; a failing resolver may stand anywhere a field value is expected) -/
def wellTyped (σ : Schema) : Nat → Ty → Val → Bool
  | 0, _, _ => false
  | _+1, _, .fail _ _ => true
  | f+1, .nonNull t, v => !v.isNull && wellTyped σ f t v
  | _+1, .scalar, v => match v with | .sc _ => true | .null => true | _ => false
  | f+1, .list t, v =>
      match v with
      | .list xs => xs.all fun x => (match x with | .fail _ _ => false | _ => true) && wellTyped σ f t x
      | .null => true
      | _ => false
  | f+1, .object n, v =>
      match v with
      | .null => true
      | .obj m fields => m == n && (match lookup n σ.objects with
          | some od => od.fields.all fun fd => wellTyped σ f fd.ty ((lookup fd.src fields).getD .null)
          | none => false)
      | _ => false
  | f+1, .union n, v =>
      match v with
      | .null => true
      | .obj m fields => ((lookup n σ.unions).getD []).contains m && (match lookup m σ.objects with
          | some od => od.fields.all fun fd => wellTyped σ f fd.ty ((lookup fd.src fields).getD .null)
          | none => false)
      | _ => false

/-- the key entry `thunder` appends to objects with a key field -/
def keyShape : List (Nat × J) → Bool
  | [(0, .sc _)] => true
  | [(0, .null)] => true
  | _ => false

/-- the key entry of an object with a key field -/
def isKeyEntry (kv : Nat × J) : Bool :=
  kv.1 == 0 && (match kv.2 with | .sc _ => true | .null => true | _ => false)

def _root_.TM.J.isNull : J → Bool
  | .null => true
  | _ => false

/-- the response conforms to the advertised type under the selection: objects carry exactly
the selected response keys in order (plus the key field), lists where lists are advertised,
scalars where scalars, `null` only where the type is nullable (list entries excepted) -/
def conforms (σ : Schema) : Nat → Ty → Option SelSet → J → Bool
  | 0, _, _, _ => false
  | f+1, .nonNull t, ss, j => !j.isNull && conforms σ f t ss j
  | _+1, .scalar, _, j => match j with | .sc _ => true | .null => true | _ => false
  | f+1, .list t, ss, j =>
      match j with
      | .arr xs => xs.all fun x => x.isNull || conforms σ f t ss x
      | _ => false
  | f+1, .object n, ss, j =>
      match j with
      | .null => true
      | .obj kvs =>
          match ss, lookup n σ.objects with
          | some ss, some od => objConf f n od (flatten (fun _ => true) f ss) kvs
          | _, _ => false
      | _ => false
  | f+1, .union n, ss, j =>
      match j with
      | .null => true
      | .obj kvs =>
          match ss with
          | some ss => ((lookup n σ.unions).getD []).any fun m =>
              match lookup m σ.objects with
              | some od => objConf f m od (flatten (fun _ => true) f (.mk ss.sels (ss.frags.filter fun fr => fr.on == m))) kvs
              | none => false
          | none => false
      | _ => false
where
  selConf (f : Nat) (n : Nat) (od : ObjDef) (fl : Flat) (j : J) : Bool :=
    if fl.name = 0 then (match j with | .sc m => m == n | _ => false)
    else match findField fl.name od.fields with
      | some fd => conforms σ f fd.ty fl.sub j
      | none => false
  /-- response objects are unordered (thunder serialises maps): exactly one entry per merged
  selection, found by its response key, plus the key entry -/
  objConf (f : Nat) (n : Nat) (od : ObjDef) (fls : List Flat) (kvs : List (Nat × J)) : Bool :=
    let nk := if od.key.isSome then 1 else 0
    kvs.length == fls.length + nk &&
    fls.all (fun fl => match lookup fl.alias kvs with
      | some j => selConf f n od fl j
      | none => false) &&
    (match od.key with
     | some _ => kvs.any isKeyEntry
     | none => true)

end TM.Gql
