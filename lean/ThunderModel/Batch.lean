/-!
# `batch.Func.Invoke` as a labelled transition system (`batch/batch.go`)

One batching context, one `Func`.  A *group* is a `batchGroup`; `published` says it is in
`pendingBatchGroups` (under its key = result of `Shard`).  A *call* is one goroutine inside
`Invoke`.  One label = one critical section of `Invoke` (or the call of `Many`, or a return):

* `join arg key` – first critical section: look the group up or create it, take the next
  index, append the argument, close and unpublish the group when `MaxSize` is reached;
* `wake c` – the creator's `select` returns (interval timer, max-duration timer, size signal
  or cancellation: any of them, at any time – the model does not constrain *when*);
* `unpublish c` – second critical section (`if pending[fs] == bg { delete }`);
* `run c o` – the creator calls `Many` (outcome `o` chosen by the environment) unless the
  context is cancelled, then closes `doneCh`;
* `ret c` – a call returns (a joiner only once `doneCh` is closed);
* `cancel` – the context is cancelled.
-/
namespace TM.Batch

/-- what `Many` does, as seen by `safeInvoke` -/
inductive Outcome
  | ok (rs : List Nat)
  | err
  | panic
deriving Repr, DecidableEq

structure Group where
  key : Nat
  args : List Nat
  published : Bool
  /-- `none`: `doneCh` open; `some none`: closed with an error; `some (some rs)`: closed with results -/
  done : Option (Option (List Nat)) := none
  /-- how many times `Many` was called for this group -/
  manyCalls : Nat := 0
deriving Repr, DecidableEq

inductive PC
  | joined | woke | unpublished | waiting
  | ran                           -- creator, after closing `doneCh`
  | returned (r : Option Nat)     -- `none` = error
deriving Repr, DecidableEq

structure Call where
  arg : Nat
  key : Nat
  group : Nat
  index : Nat
  creator : Bool
  pc : PC
deriving Repr, DecidableEq

structure St where
  maxSize : Nat            -- 0 = unlimited
  groups : List Group := []
  calls : List Call := []
  cancelled : Bool := false
deriving Repr

inductive Label
  | join (arg key : Nat)
  | wake (c : Nat)
  | unpublish (c : Nat)
  | run (c : Nat) (o : Outcome)
  | ret (c : Nat)
  | cancel
deriving Repr

def init (maxSize : Nat) : St := { maxSize := maxSize }

/-- index of the published group for `key`, if any (`pendingBatchGroups[fs]`) -/
def findPublished (key : Nat) : List Group → Nat → Option Nat
  | [], _ => none
  | g :: gs, i => if g.published && g.key == key then some i else findPublished key gs (i + 1)

/-- the size check at the end of the first critical section -/
def sizeCheck (maxSize : Nat) (g : Group) : Group :=
  if maxSize > 0 && g.args.length == maxSize then { g with published := false } else g

/-- `safeInvoke`: a result of the wrong length, an error and a panic all become an error -/
def safeResult (args : List Nat) : Outcome → Option (List Nat)
  | .ok rs => if rs.length = args.length then some rs else none
  | _ => none

def step? (s : St) : Label → Option St
  | .join arg key =>
      match findPublished key s.groups 0 with
      | some gi =>
          match s.groups[gi]? with
          | some g =>
              let g' := sizeCheck s.maxSize { g with args := g.args ++ [arg] }
              some { s with groups := s.groups.set gi g',
                            calls := s.calls ++ [⟨arg, key, gi, g.args.length, false, .waiting⟩] }
          | none => none
      | none =>
          let g := sizeCheck s.maxSize { key := key, args := [arg], published := true }
          some { s with groups := s.groups ++ [g],
                        calls := s.calls ++ [⟨arg, key, s.groups.length, 0, true, .joined⟩] }
  | .wake c =>
      match s.calls[c]? with
      | some cl => if cl.pc = .joined then some { s with calls := s.calls.set c { cl with pc := .woke } } else none
      | none => none
  | .unpublish c =>
      match s.calls[c]? with
      | some cl =>
          if cl.pc = .woke then
            match s.groups[cl.group]? with
            | some g => some { s with groups := s.groups.set cl.group { g with published := false },
                                      calls := s.calls.set c { cl with pc := .unpublished } }
            | none => none
          else none
      | none => none
  | .run c o =>
      match s.calls[c]? with
      | some cl =>
          if cl.pc = .unpublished then
            match s.groups[cl.group]? with
            | some g =>
                let g' : Group :=
                  if s.cancelled then { g with done := some none }
                  else { g with done := some (safeResult g.args o), manyCalls := g.manyCalls + 1 }
                some { s with groups := s.groups.set cl.group g',
                              calls := s.calls.set c { cl with pc := .ran } }
            | none => none
          else none
      | none => none
  | .ret c =>
      match s.calls[c]? with
      | some cl =>
          if cl.pc = .ran ∨ cl.pc = .waiting then
            match s.groups[cl.group]? with
            | some g =>
                match g.done with
                | some res =>
                    let r : Option Nat := match res with
                      | some rs => rs[cl.index]?
                      | none => none
                    some { s with calls := s.calls.set c { cl with pc := .returned r } }
                | none => none          -- `<-bg.doneCh` blocks
            | none => none
          else none
      | none => none
  | .cancel => some { s with cancelled := true }

def run (s : St) : List Label → Option St
  | [] => some s
  | l :: ls => (step? s l).bind (fun s' => run s' ls)

end TM.Batch
