/-!
# `concurrencylimiter` as a labelled transition system

State: the channel fill `chan` (capacity `cap`) and, per holder, its atomic `status` plus the
program counters of the calls in flight on it: `tr` for the one `block` call whose CAS
`acquired → blocked` succeeded (there is at most one at a time), `nested` for `block` calls whose
CAS failed (they only run `f`), `relRecv` for `release` calls that swapped from `acquired` and
still owe their receive.  One label = one atomic operation or channel operation of
`concurrencylimiter.go`; a blocked channel operation is a label that is not enabled.
The protocol is the repaired one (status `reacquiring` between the re-acquire CAS and the send).
-/
namespace TM.Limiter

inductive Status | acquired | blocked | released | reacquiring
deriving DecidableEq, Repr

inductive TR | none | needRecv | running | needSend | sentNeedCas | needGiveBack
deriving DecidableEq, Repr

structure Holder where
  status : Status
  tr : TR := .none
  relRecv : Nat := 0
  nested : Nat := 0
deriving DecidableEq, Repr

structure St where
  cap : Nat
  chan : Nat
  holders : List Holder
deriving Repr

inductive Label
  | acquire | releaseSwap (h : Nat) | releaseRecv (h : Nat) | blockCas (h : Nat) | blockRecv (h : Nat)
  | fDone (h : Nat) | deferSend (h : Nat) | deferCas (h : Nat) | giveBack (h : Nat)
  | nestedDone (h : Nat)
  /-- `Acquire` on a context without limiter or already cancelled, `TemporarilyRelease` without holder: no shared state is touched, always enabled -/
  | noop
deriving Repr

def init (cap : Nat) : St := ⟨cap, 0, []⟩
def setH (s : St) (i : Nat) (h : Holder) : St := { s with holders := s.holders.set i h }

def step? (s : St) : Label → Option St
  | .acquire =>
      if s.chan < s.cap then some { s with chan := s.chan + 1, holders := s.holders ++ [⟨.acquired, .none, 0, 0⟩] }
      else none
  | .releaseSwap i =>
      match s.holders[i]? with
      | some h =>
          if h.status = .acquired then some (setH s i { h with status := .released, relRecv := h.relRecv + 1 })
          else some (setH s i { h with status := .released })
      | none => none
  | .releaseRecv i =>
      match s.holders[i]? with
      | some h =>
          if 0 < h.relRecv ∧ 0 < s.chan then
            some { (setH s i { h with relRecv := h.relRecv - 1 }) with chan := s.chan - 1 }
          else none
      | none => none
  | .blockCas i =>
      match s.holders[i]? with
      | some h =>
          if h.status = .acquired then
            if h.tr = .none then some (setH s i { h with status := .blocked, tr := .needRecv }) else none
          else some (setH s i { h with nested := h.nested + 1 })
      | none => none
  | .blockRecv i =>
      match s.holders[i]? with
      | some h =>
          if h.tr = .needRecv ∧ 0 < s.chan then
            some { (setH s i { h with tr := .running }) with chan := s.chan - 1 }
          else none
      | none => none
  | .fDone i =>
      match s.holders[i]? with
      | some h =>
          match h.tr with
          | .running =>
              if h.status = .blocked then some (setH s i { h with status := .reacquiring, tr := .needSend })
              else some (setH s i { h with tr := .none })
          | _ => none
      | none => none
  | .deferSend i =>
      match s.holders[i]? with
      | some h =>
          if h.tr = .needSend ∧ s.chan < s.cap then
            some { (setH s i { h with tr := .sentNeedCas }) with chan := s.chan + 1 }
          else none
      | none => none
  | .deferCas i =>
      match s.holders[i]? with
      | some h =>
          if h.tr = .sentNeedCas then
            if h.status = .reacquiring then some (setH s i { h with status := .acquired, tr := .none })
            else some (setH s i { h with tr := .needGiveBack })
          else none
      | none => none
  | .nestedDone i =>
      match s.holders[i]? with
      | some h => if 0 < h.nested then some (setH s i { h with nested := h.nested - 1 }) else none
      | none => none
  | .noop => some s
  | .giveBack i =>
      match s.holders[i]? with
      | some h =>
          if h.tr = .needGiveBack ∧ 0 < s.chan then
            some { (setH s i { h with tr := .none }) with chan := s.chan - 1 }
          else none
      | none => none

def run (s : St) : List Label → Option St
  | [] => some s
  | l :: ls => (step? s l).bind (fun s' => run s' ls)

/-- a holder is running: it holds a token and is not inside `TemporarilyRelease` -/
def isRunning (h : Holder) : Bool := h.status = .acquired
def running (s : St) : Nat := (s.holders.filter isRunning).length

/-- nothing in flight on any holder -/
def idle (h : Holder) : Bool := h.tr = .none && h.relRecv = 0 && h.nested = 0
def allReleased (s : St) : Bool := s.holders.all (fun h => h.status = .released && idle h)

end TM.Limiter
