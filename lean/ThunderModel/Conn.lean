/-! The websocket connection (`graphql/server.go`): the `subscriptions` map, subscribe / mutate /
unsubscribe handling, deferred `go c.closeSubscription(id)` tasks, outcomes of rerunner runs,
connection close, and the `SubscriptionLogger` calls — as a transition system.  One label per
critical section under `conn.mu` (or per outcome of a run).  `Cfg` selects the code after the
repairs (`repaired`) or before (`old`), so that the histories that went wrong stay checkable. -/
namespace TM.Conn

structure Cfg where
  mutateDupCheck : Bool      -- handleMutate rejects an id that is in use
  closeLogs : Bool           -- closeSubscriptions calls Unsubscribe
  closeByIdentity : Bool     -- a deferred close only closes the rerunner that asked for it
  max : Nat := 200
deriving Repr

def old : Cfg := ⟨false, false, false, 200⟩
/-- the code after the repairs, with a subscription limit of `max` -/
def repairedWith (max : Nat) : Cfg := ⟨true, true, true, max⟩
def repaired : Cfg := repairedWith 200

inductive Kind | sub | mut deriving DecidableEq, Repr
inductive Ev | S (id rid : Nat) | U (id rid : Nat) deriving DecidableEq, Repr

structure Entry where
  id : Nat
  kind : Kind
  rid : Nat                  -- identity of the rerunner
deriving DecidableEq, Repr

structure St where
  subs : List Entry := []                -- conn.subscriptions
  stopped : List Nat := []               -- rerunners on which Stop() has returned
  dead : List Nat := []                  -- rerunners that ended by their own failure / completion
  nextRid : Nat := 0
  log : List Ev := []                    -- SubscriptionLogger calls, oldest first (rid is a ghost)
  writes : List (Nat × Nat) := []        -- (id, rid) of every update/result/error envelope written
  pending : List (Nat × Nat) := []       -- deferred `go c.closeSubscription(id)` tasks: (id, rid that asked)
  closed : Bool := false
deriving Repr, DecidableEq

inductive Label
  | subscribe (id : Nat) (accepted : Bool)
  | mutate (id : Nat) (accepted : Bool)
  | closeSub (id : Nat) (by_ : Option Nat)  -- closeSubscription(id): an unsubscribe message (none) or the deferred task of a rerunner
  | runOk (rid : Nat)        -- a (re)computation of that rerunner completes and writes
  | runFail (rid : Nat)      -- initial failure: error envelope, deferred close
  | sockClose
deriving Repr, DecidableEq

def find (subs : List Entry) (id : Nat) : Option Entry := subs.find? (·.id = id)
def findRid (subs : List Entry) (rid : Nat) : Option Entry := subs.find? (·.rid = rid)
def alive (s : St) (rid : Nat) : Bool := rid < s.nextRid && !s.stopped.contains rid && !s.dead.contains rid

/-- `closeSubscription(id)`; `only` restricts it to one rerunner identity -/
def closeSub (s : St) (id : Nat) (only : Option Nat) : St :=
  match find s.subs id with
  | some e =>
      if only.all (· = e.rid) then
        { s with subs := s.subs.filter (·.id ≠ id), stopped := e.rid :: s.stopped, log := s.log ++ [.U id e.rid] }
      else s
  | none => s

def step (cfg : Cfg) (s : St) : Label → Option St
  | .subscribe id acc =>
      if s.closed then none
      else
        let ok := (find s.subs id).isNone && decide (s.subs.length + 1 ≤ cfg.max)
        if acc != ok then none        -- the implementation's verdict must be the model's
        else if ok then
          some { s with subs := ⟨id, .sub, s.nextRid⟩ :: s.subs, nextRid := s.nextRid + 1,
                        log := s.log ++ [.S id s.nextRid] }
        else some s                   -- "duplicate subscription" / "too many subscriptions"
  | .mutate id acc =>
      if s.closed then none
      else
        let ok := !cfg.mutateDupCheck || (find s.subs id).isNone
        if acc != ok then none
        else if ok then
          some { s with subs := ⟨id, .mut, s.nextRid⟩ :: s.subs.filter (·.id ≠ id), nextRid := s.nextRid + 1 }
        else some s
  | .closeSub id by_ =>
      match by_ with
      | none => if s.closed then none else some (closeSub s id none)
      | some rid =>
          if (id, rid) ∈ s.pending then
            let s' := { s with pending := s.pending.erase (id, rid) }
            some (closeSub s' id (if cfg.closeByIdentity then some rid else none))
          else none
  | .runOk rid =>
      if alive s rid then
        match findRid s.subs rid with
        | some e =>
            let s' := { s with writes := s.writes ++ [(e.id, rid)] }
            if e.kind = .mut then some { s' with dead := rid :: s'.dead, pending := (e.id, rid) :: s'.pending }
            else some s'
        | none => none               -- a rerunner nobody tracks any more runs: an orphan (old code only)
      else none
  | .runFail rid =>
      if alive s rid then
        match findRid s.subs rid with
        | some e => some { s with writes := s.writes ++ [(e.id, rid)], dead := rid :: s.dead,
                                  pending := (e.id, rid) :: s.pending }
        | none => none
      else none
  | .sockClose =>
      if s.closed then none
      else some { s with closed := true, subs := [], stopped := s.subs.map (·.rid) ++ s.stopped,
                         log := if cfg.closeLogs then s.log ++ s.subs.map (fun e => .U e.id e.rid) else s.log }

def run (cfg : Cfg) : St → List Label → Option St
  | s, [] => some s
  | s, l :: ls => match step cfg s l with
      | some s' => run cfg s' ls
      | none => none

def init : St := {}

/-- `log` above records the end of every entry of the map, mutations included (a mutation's entry is
removed like a subscription's). The subscription logger is told about subscriptions only: it sees
every `S`, and the `U` of an entry whose `S` it has seen (a mutation has none). -/
def keptBy (log : List Ev) : Ev → Bool
  | .S _ _ => true
  | .U id rid => log.contains (.S id rid)

/-- the `SubscriptionLogger` calls of the code after the repair C17-4 -/
def seen (log : List Ev) : List Ev := log.filter (keptBy log)

/-- rerunners that are alive although nothing in `subscriptions` refers to them -/
def orphans (s : St) : List Nat :=
  (List.range s.nextRid).filter fun rid => alive s rid && (findRid s.subs rid).isNone

end TM.Conn
