import ThunderProofs.Properties.C16
#print axioms TM.Properties.C16.data_only_if_all_succeed
#print axioms TM.Properties.C16.failing_resolver_fails_query
#print axioms TM.Properties.C16.fails_only_if_resolver_fails
#print axioms TM.Properties.C16.ok_iff
#print axioms TM.Properties.C16.path_unless_safe
#print axioms TM.Properties.C16.firstFail_is_a_failing_source
#print axioms TM.Properties.C16.batchFail_is_a_failing_source
#print axioms TM.Properties.C16.sanitize_forwards_only_safe
#print axioms TM.Properties.C16.unsafe_is_generic
#print axioms TM.Properties.C16.sanitize_nest
#print axioms TM.Properties.C16.nest_spec
#print axioms TM.Properties.C16.ex_exec_fails
