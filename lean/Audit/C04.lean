import ThunderProofs.Properties.C04
#print axioms TM.Properties.C04.stale_implies_rerun
#print axioms TM.Properties.C04.invalidation_propagates
#print axioms TM.Properties.C04.handler_fires_once
#print axioms TM.Properties.C04.quiescent_not_stale
#print axioms TM.Properties.C04.runs_exclusive
#print axioms TM.Properties.C04.stop_excludes_runs
#print axioms TM.Properties.C04.ex_stale
