import ThunderProofs.Properties.C09
#print axioms TM.Properties.C09.merge_comm
#print axioms TM.Properties.C09.fold2_order_independent
#print axioms TM.Properties.C09.merge_idem
#print axioms TM.Properties.C09.compatible_iff_same_shape
#print axioms TM.Properties.C09.required_if_any
#print axioms TM.Properties.C09.nonnull_only_if_all
#print axioms TM.Properties.C09.merged_shape
#print axioms TM.Properties.C09.inter_only_common
#print axioms TM.Properties.C09.inter_fields_common
#print axioms TM.Properties.C09.inter_args_common
#print axioms TM.Properties.C09.union_contains_all
#print axioms TM.Properties.C09.union_three_services_order_dependent
#print axioms TM.Properties.C09.required_if_any_at_depth
#print axioms TM.Properties.C09.nonnull_only_if_all_at_depth
