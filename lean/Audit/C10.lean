import ThunderProofs.Properties.C10
#print axioms TM.Properties.C10.batch_eq_alone
#print axioms TM.Properties.C10.empty_filter_fetches_all
#print axioms TM.Properties.C10.independent_of_companions
#print axioms TM.Properties.C10.representation_irrelevant
#print axioms TM.Properties.C10.old_loses_int_vs_int64
#print axioms TM.Properties.C10.old_nil_depends_on_companions
#print axioms TM.Properties.C10.call_batched_eq_alone
#print axioms TM.Properties.C10.late_validation_fails_siblings
