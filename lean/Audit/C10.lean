import ThunderProofs.Properties.C10
#print axioms TM.Properties.C10.batch_eq_alone
#print axioms TM.Properties.C10.empty_filter_fetches_all
#print axioms TM.Properties.C10.independent_of_companions
#print axioms TM.Properties.C10.representation_irrelevant
#print axioms TM.Properties.C10.old_loses_int_vs_int64
#print axioms TM.Properties.C10.old_nil_depends_on_companions
#print axioms TM.Properties.C10.call_batched_eq_alone
#print axioms TM.Properties.C10.late_validation_fails_siblings
#print axioms TM.Properties.C10.tester_agrees_with_database
#print axioms TM.Properties.C10.old_out_of_range_wraps
#print axioms TM.Properties.C10.old_large_float_lost
#print axioms TM.Properties.C10.uint64_is_outside
