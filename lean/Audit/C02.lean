import ThunderProofs.Properties.C02
#print axioms TM.Properties.C02.step_converges
#print axioms TM.Properties.C02.session_converges
#print axioms TM.Properties.C02.fold_merge_converges
#print axioms TM.Properties.C02.first_is_full
#print axioms TM.Properties.C02.streams_independent
#print axioms TM.Properties.C02.no_update_after_unsubscribe
#print axioms TM.Properties.C02.ex_session
