import ThunderProofs.Properties.C18
#print axioms TM.Properties.C18.literal_eq_variable
#print axioms TM.Properties.C18.variable_is_its_value
#print axioms TM.Properties.C18.default_iff_no_value
#print axioms TM.Properties.C18.required_variable_no_default
#print axioms TM.Properties.C18.wrong_kind_rejected
#print axioms TM.Properties.C18.missing_required_rejected
#print axioms TM.Properties.C18.optional_absent_zero
#print axioms TM.Properties.C18.enum_exact
