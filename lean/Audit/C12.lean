import ThunderProofs.Properties.C12
#print axioms TM.Properties.C12.checkLimit_spec
#print axioms TM.Properties.C12.check_enforced
#print axioms TM.Properties.C12.ok_implies_carries
#print axioms TM.Properties.C12.error_touches_nothing
#print axioms TM.Properties.C12.chunks_flatten
#print axioms TM.Properties.C12.insertRows_all_or_nothing
#print axioms TM.Properties.C12.batch_keeps_limit
#print axioms TM.Properties.C12.batch_rejects
#print axioms TM.Properties.C12.update_where_not_confined
