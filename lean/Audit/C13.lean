import ThunderProofs.Properties.C13
#print axioms TM.Properties.C13.scan_value
#print axioms TM.Properties.C13.build_unbuild
#print axioms TM.Properties.C13.build_wrong_length
#print axioms TM.Properties.C13.tester_reflexive
#print axioms TM.Properties.C13.proto_roundtrip
#print axioms TM.Properties.C13.proto_same_rows
#print axioms TM.Properties.C13.proto_out_of_range_witness
