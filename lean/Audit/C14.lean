import ThunderProofs.Properties.C14
#print axioms TM.Properties.C14.rejects_selection_on_scalar
#print axioms TM.Properties.C14.rejects_object_without_selection
#print axioms TM.Properties.C14.rejects_unknown_field
#print axioms TM.Properties.C14.rejects_below
#print axioms TM.Properties.C14.rejects_in_fragment
#print axioms TM.Properties.C14.rejects_field_on_union
#print axioms TM.Properties.C14.validated_never_goes_wrong
#print axioms TM.Properties.C14.response_conforms
#print axioms TM.Properties.C14.execute_conforms
#print axioms TM.Properties.C14.nonNull_not_null
#print axioms TM.Properties.C14.object_fields_exactly_selected
#print axioms TM.Properties.C14.ex_accepts
#print axioms TM.Properties.C14.merged_keys_distinct
