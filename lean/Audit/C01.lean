import ThunderProofs.Properties.C01
#print axioms TM.Properties.C01.exec_eq_ref
#print axioms TM.Properties.C01.mode_irrelevant
#print axioms TM.Properties.C01.reference_mode_blind
#print axioms TM.Properties.C01.unit_pointwise
#print axioms TM.Properties.C01.split_gather
#print axioms TM.Properties.C01.split_mem
#print axioms TM.Properties.C01.sched_confluent
#print axioms TM.Properties.C01.sched_same_writes
#print axioms TM.Properties.C01.ex_execute
