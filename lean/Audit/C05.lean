import ThunderProofs.Properties.C05
#print axioms TM.Properties.C05.own_result
#print axioms TM.Properties.C05.own_result_pointwise
#print axioms TM.Properties.C05.error_is_batch_error
#print axioms TM.Properties.C05.at_most_once
#print axioms TM.Properties.C05.size_bound
#print axioms TM.Properties.C05.shard_pure
#print axioms TM.Properties.C05.all_return
