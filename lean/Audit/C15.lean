import ThunderProofs.Properties.C15
#print axioms TM.Properties.C15.memo_cost_linear
#print axioms TM.Properties.C15.naive_cost_exponential
#print axioms TM.Properties.C15.memo_cost_bomb
#print axioms TM.Properties.C15.oneshot_never_stuck
#print axioms TM.Properties.C15.oneshot_terminates
#print axioms TM.Properties.C15.oneshot_old_can_hang
#print axioms TM.Properties.C15.oneshot_example
#print axioms TM.Properties.C15.panic_fails_request
