import ThunderProofs.Properties.C17
#print axioms TM.Properties.C17.no_orphans
#print axioms TM.Properties.C17.never_ends_twice
#print axioms TM.Properties.C17.ends_exactly_once
#print axioms TM.Properties.C17.open_while_registered
#print axioms TM.Properties.C17.closed_all_stopped
#print axioms TM.Properties.C17.quiet_after_end
#print axioms TM.Properties.C17.ids_unique
#print axioms TM.Properties.C17.limit_respected
#print axioms TM.Properties.C17.old_close_unpaired
#print axioms TM.Properties.C17.old_mutate_orphans
#print axioms TM.Properties.C17.old_deferred_kills_newer
#print axioms TM.Properties.C17.repaired_close_paired
#print axioms TM.Properties.C17.repaired_mutate_rejected
#print axioms TM.Properties.C17.repaired_deferred_spares_newer
