import ThunderProofs.Properties.C20
#print axioms TM.Properties.C20.running_le_cap
#print axioms TM.Properties.C20.token_account
#print axioms TM.Properties.C20.quiescent_all_returned
#print axioms TM.Properties.C20.release_idempotent
#print axioms TM.Properties.C20.recv_never_blocks
#print axioms TM.Properties.C20.acquire_nonblocking_cases
#print axioms TM.Properties.C20.acquire_enabled_iff
