import ThunderProofs.Properties.C03
#print axioms TM.Properties.C03.merge_diff
#print axioms TM.Properties.C03.merge_diff_any_matching
#print axioms TM.Properties.C03.uncompress_compress
#print axioms TM.Properties.C03.merge_diff_self
#print axioms TM.Properties.C03.mergeJs_diff
#print axioms TM.Properties.C03.merge_diff_strict
#print axioms TM.Properties.C03.diff_self
