import ThunderProofs.Properties.C07
#print axioms TM.Properties.C07.quiescent_rows_fresh
#print axioms TM.Properties.C07.valid_query_fresh_or_pending
#print axioms TM.Properties.C07.undecodable_invalidates_table
#print axioms TM.Properties.C07.missed_write_keeps_result
#print axioms TM.Properties.C07.old_drops_undecodable
#print axioms TM.Properties.C07.repaired_invalidates_on_undecodable
#print axioms TM.Properties.C07.read_before_register_misses_write
#print axioms TM.Properties.C07.read_requires_registration
#print axioms TM.Properties.C07.schema_change_decodes_right
#print axioms TM.Properties.C07.no_flush_decodes_garbage
#print axioms TM.Properties.C07.wrong_width_is_error
