import ThunderProofs.Properties.C11
#print axioms TM.Properties.C11.walk_forward
#print axioms TM.Properties.C11.walk_backward
#print axioms TM.Properties.C11.page_exact
#print axioms TM.Properties.C11.has_next_exact
#print axioms TM.Properties.C11.cursors_are_ends
#print axioms TM.Properties.C11.unknown_cursor_ignored
#print axioms TM.Properties.C11.sort_perm
#print axioms TM.Properties.C11.sort_sorted
#print axioms TM.Properties.C11.sort_stable
#print axioms TM.Properties.C11.filter_exact
#print axioms TM.Properties.C11.connection_ok
