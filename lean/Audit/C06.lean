import ThunderProofs.Properties.C06
#print axioms TM.Properties.C06.gateway_eq_monolith_stitched
#print axioms TM.Properties.C06.partition_independent
#print axioms TM.Properties.C06.planSels_owned
#print axioms TM.Properties.C06.gateway_eq_monolith
#print axioms TM.Properties.C06.exec_pointwise
#print axioms TM.Properties.C06.extract_stitch_aligned
#print axioms TM.Properties.C06.normalize_keeps_answer
#print axioms TM.Properties.C06.normalize_is_normalized
#print axioms TM.Properties.C06.gateway_eq_monolith_raw
#print axioms TM.Properties.C06.old_first_directive_decides
#print axioms TM.Properties.C06.old_dedup_loses_subselection
#print axioms TM.Properties.C06.key_selection_covers
#print axioms TM.Properties.C06.key_selection_only_keys
#print axioms TM.Properties.C06.first_target_only_misses_key
