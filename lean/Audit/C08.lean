import ThunderProofs.Properties.C08
#print axioms TM.Properties.C08.cached_use_propagates
#print axioms TM.Properties.C08.quiescent_output_fresh
#print axioms TM.Properties.C08.cleanup_once
#print axioms TM.Properties.C08.released_edges_are_dropped
#print axioms TM.Properties.C08.quiescent_cleanup_exactly_once
#print axioms TM.Properties.C08.quiescent_edges_live
#print axioms TM.Properties.C08.ex_released
#print axioms TM.Properties.C08.cleanup_decided_only_when_unused
#print axioms TM.Properties.C08.rerunner_never_releases_used_node
