import ThunderProofs.Properties.C19
#print axioms TM.Properties.C19.both_must_allow
#print axioms TM.Properties.C19.reference_prune
#print axioms TM.Properties.C19.execute_prune
#print axioms TM.Properties.C19.refEval_prune
#print axioms TM.Properties.C19.prune_sels
#print axioms TM.Properties.C19.prune_frags
#print axioms TM.Properties.C19.pruned_has_no_directives
#print axioms TM.Properties.C19.fragment_uses_independent
#print axioms TM.Properties.C19.ex_pruned
